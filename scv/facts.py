"""Compile database + parallel fact extraction with the scv libTooling tool.

Everything is re-derived from /repo's working tree on each run.  A cache keyed by
the content hash of the unit, of every first-party header and of the flags may
be used by the quick tier; an identical key means byte-identical input to clang,
so a cached fact file is exactly what a re-extraction would produce.
"""
import hashlib
import json
import os
import re
import shlex
import subprocess
import sys
import time
from concurrent.futures import ThreadPoolExecutor

VERIF = os.path.dirname(os.path.dirname(os.path.abspath(__file__)))
REPO = os.environ.get("SCV_REPO", "/repo")
SCV_BIN = os.path.join(VERIF, "scv", "bin", "scv")
CACHE = os.path.join(VERIF, ".cache")
FALLBACK_DB = os.path.join(VERIF, "scv", "fallback", "compdb.json")
FALLBACK_INC = os.path.join(VERIF, "scv", "fallback", "include")
RESOURCE_DIR = "/usr/lib/llvm-14/lib/clang/14.0.6"

COMPONENTS = [
    ("src/clstepcore/test", "test"), ("src/express/test", "test"), ("src/exppp/test", "test"),
    ("src/clstepcore", "clstepcore"), ("src/cldai", "cldai"), ("src/cleditor", "cleditor"),
    ("src/clutils", "clutils"), ("src/cllazyfile", "cllazyfile"),
    ("src/express/generated", "express"), ("src/express", "express"),
    ("src/exppp", "exppp"), ("src/exp2cxx", "exp2cxx"), ("src/exp2python", "exp2python"),
    ("src/test/p21read", "p21read"), ("cmake/schema_scanner", "scanner"), ("test", "test"),
]


class AnalysisBroken(Exception):
    """Raised when the analysis cannot be carried out (exit code 2)."""


def component_of(path):
    rel = os.path.relpath(path, REPO)
    for pre, comp in COMPONENTS:
        if rel.startswith(pre + "/"):
            return comp
    return "other"


def _keep_flags(cmd):
    toks = shlex.split(cmd)
    out = []
    i = 1
    while i < len(toks):
        t = toks[i]
        if t in ("-o", "-MF", "-MT", "-MQ"):
            i += 2
            continue
        if t in ("-c", "-MD", "-MMD", "-MP"):
            i += 1
            continue
        if t.startswith(("-I", "-D", "-U", "-std=", "-isystem", "-include")):
            out.append(t)
            if t in ("-I", "-D", "-isystem", "-include"):
                out.append(toks[i + 1])
                i += 1
        i += 1
    return out


def _ninja_db():
    bn = os.path.join(REPO, "_build", "build.ninja")
    if not os.path.exists(bn):
        return None
    try:
        p = subprocess.run(["ninja", "-C", os.path.join(REPO, "_build"), "-t", "compdb"],
                           capture_output=True, text=True, timeout=120)
        if p.returncode != 0:
            return None
        return json.loads(p.stdout)
    except Exception:
        return None


def scanner_unit():
    f = os.path.join(REPO, "cmake/schema_scanner/schemaScanner.cc")
    inc = ["include", "src/express", "src/express/generated", "src/exp2cxx", "_build/include"]
    return {"file": f, "flags": ["-I%s/%s" % (REPO, i) for i in inc] + ["-DSCHEMA_SCANNER", "-std=gnu++14"],
            "lang": "c++", "component": "scanner"}


def compile_db():
    """-> (units, route).  units: list of {file, flags, lang, component}."""
    raw = _ninja_db()
    route = "ninja -t compdb"
    if raw is None:
        if not os.path.exists(FALLBACK_DB):
            raise AnalysisBroken("no /repo/_build/build.ninja and no fallback compile database")
        raw = json.load(open(FALLBACK_DB))
        route = "fallback table (scv/fallback/compdb.json)"
    units = {}
    for e in raw:
        f = os.path.normpath(e["file"])
        if not (f.startswith(REPO + "/src/") or f.startswith(REPO + "/cmake/")):
            continue
        if f in units:
            continue
        flags = e["flags"] if "flags" in e else _keep_flags(e["command"])
        units[f] = {"file": f, "flags": flags, "lang": "c" if f.endswith(".c") else "c++",
                    "component": component_of(f)}
    # sources that exist in a component directory but are unknown to the DB
    # (added after configure): give them their directory's flags if their
    # CMakeLists.txt names them.
    bydir = {}
    for u in units.values():
        bydir.setdefault((os.path.dirname(u["file"]), u["lang"]), u)
    for (d, lang), proto in list(bydir.items()):
        cm = os.path.join(d, "CMakeLists.txt")
        if not os.path.exists(cm):
            continue
        try:
            cmtxt = open(cm, errors="replace").read()
        except OSError:
            continue
        for fn in sorted(os.listdir(d)):
            p = os.path.join(d, fn)
            ext = ".c" if lang == "c" else ".cc"
            if fn.endswith(ext) and p not in units and re.search(r"\b%s\b" % re.escape(fn), cmtxt):
                units[p] = dict(proto, file=p)
    su = scanner_unit()
    if os.path.exists(su["file"]):
        units.setdefault(su["file"], su)
    # missing files => analysis broken later (reported by extract)
    lst = sorted(units.values(), key=lambda u: u["file"])
    # config.h fallback
    if not os.path.exists(os.path.join(REPO, "_build/include/config.h")):
        for u in lst:
            u["flags"] = [("-I" + FALLBACK_INC) if fl == "-I%s/_build/include" % REPO else fl for fl in u["flags"]]
        route += " + fallback config.h"
    return lst, route


def write_fallback():
    """Called by build.py when a real build tree exists: freeze the flag table."""
    raw = _ninja_db()
    if raw is None:
        return False
    out = []
    seen = set()
    for e in raw:
        f = os.path.normpath(e["file"])
        if not (f.startswith(REPO + "/src/") or f.startswith(REPO + "/cmake/")) or f in seen:
            continue
        seen.add(f)
        out.append({"file": f, "flags": _keep_flags(e["command"])})
    os.makedirs(os.path.dirname(FALLBACK_DB), exist_ok=True)
    new = json.dumps(sorted(out, key=lambda e: e["file"]), indent=0)
    if not os.path.exists(FALLBACK_DB) or open(FALLBACK_DB).read() != new:
        open(FALLBACK_DB, "w").write(new)
    cfg = os.path.join(REPO, "_build/include/config.h")
    if os.path.exists(cfg):
        os.makedirs(FALLBACK_INC, exist_ok=True)
        dst = os.path.join(FALLBACK_INC, "config.h")
        txt = open(cfg).read()
        if not os.path.exists(dst) or open(dst).read() != txt:
            open(dst, "w").write(txt)
    return True


_header_hash = None


def header_hash():
    """Hash of every first-party header (any header edit invalidates all units)."""
    global _header_hash
    if _header_hash is not None:
        return _header_hash
    h = hashlib.sha1()
    roots = [os.path.join(REPO, "include"), os.path.join(REPO, "src"), os.path.join(REPO, "cmake"),
             os.path.join(REPO, "_build/include/config.h"), FALLBACK_INC]
    files = []
    for r in roots:
        if os.path.isfile(r):
            files.append(r)
            continue
        for dp, dn, fn in os.walk(r):
            for f in fn:
                if f.endswith((".h", ".hh", ".hpp", ".hxx", ".inc")) or (f.endswith(".cc") and "inline" in f):
                    files.append(os.path.join(dp, f))
    for f in sorted(files):
        h.update(f.encode())
        try:
            h.update(open(f, "rb").read())
        except OSError:
            pass
    try:
        h.update(open(SCV_BIN, "rb").read())
    except OSError:
        pass
    _header_hash = h.hexdigest()
    return _header_hash


def _unit_key(u, extra):
    h = hashlib.sha1()
    h.update(header_hash().encode())
    h.update(u["file"].encode())
    h.update(open(u["file"], "rb").read())
    h.update(" ".join(u["flags"] + extra).encode())
    return h.hexdigest()


def _extract_one(u, extra, roots, use_cache):
    os.makedirs(CACHE, exist_ok=True)
    key = _unit_key(u, extra)
    out = os.path.join(CACHE, key + ".json")
    cached = use_cache and os.path.exists(out)
    if not cached:
        tmp = out + ".tmp%d" % os.getpid()
        cmd = [SCV_BIN, "--out", tmp]
        for r in roots:
            cmd += ["--root", r]
        # warnings are off unless a rule asks for specific ones (wflags are part of `extra`)
        quiet = [] if any(x.startswith("-W") for x in extra) else ["-w"]
        cmd += [u["file"], "--", "-resource-dir", RESOURCE_DIR] + u["flags"] + extra + quiet
        p = subprocess.run(cmd, capture_output=True, text=True)
        if not os.path.exists(tmp):
            raise AnalysisBroken("scv failed on %s: %s" % (u["file"], (p.stderr or "")[-400:]))
        os.replace(tmp, out)
    with open(out) as fh:
        d = json.load(fh)
    d["_cached"] = cached
    d["_component"] = u["component"]
    d["_flags"] = u["flags"] + extra
    return d


def extract(units, extra_flags=("-UNDEBUG",), roots=None, use_cache=True, jobs=16, wflags=()):
    """Run scv on every unit; returns list of fact dicts (same order)."""
    if not os.path.exists(SCV_BIN):
        raise AnalysisBroken("scv binary missing: run `python3 scv/build.py` (MANIFEST.setup_cmd)")
    roots = roots or [REPO + "/"]
    for u in units:
        if not os.path.exists(u["file"]):
            raise AnalysisBroken("translation unit vanished: " + u["file"])
    extra = list(extra_flags) + list(wflags)
    with ThreadPoolExecutor(max_workers=jobs) as ex:
        res = list(ex.map(lambda u: _extract_one(u, extra, roots, use_cache), units))
    for d, u in zip(res, units):
        if d.get("errors", 0):
            errs = [x for x in d.get("diags", []) if x["level"] == "error"][:3]
            raise AnalysisBroken("translation unit failed to parse: %s: %s" % (u["file"], errs))
    return res


def select(units, components=None, files=None, exclude_tests=True):
    out = []
    for u in units:
        if exclude_tests and u["component"] == "test":
            continue
        if components is not None and u["component"] not in components:
            if not (files and any(u["file"].endswith(f) for f in files)):
                continue
        if components is None and files is not None and not any(u["file"].endswith(f) for f in files):
            continue
        out.append(u)
    return out
