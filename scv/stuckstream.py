"""E3 `stuckstream` — every loop that pulls characters from a stream leaves when the stream is stuck.

Two abstract stuck states are imposed at the loop head and one abstract iteration is explored
path-sensitively with three-valued evaluation of the branch conditions (DESIGN §3/E3):
  A  end of file : good()=false eof()=true fail()=true (bool)S=false peek()/get()=EOF,
                   get(c) / S >> c leave c unchanged
  B  fail, no eof: as A but eof()=false   (only for loops that contain an extraction which can fail
                   without reaching end of file: numeric >>, getline/get with a length limit)
A loop is discharged when no path leads from the loop head back to the loop head.
Paths that advance a counter which is compared in an exit condition of the loop count as progress.
"""
from collections import deque

from engines import call_args
from ir import walk, strip, expr_str, access_path

CONSUME = {"get", "getline", "ignore", "read", "readsome", "operator>>", "unget", "putback", "seekg", "peek"}
REAL_CONSUME = {"get", "getline", "ignore", "read", "readsome", "operator>>"}
STREAM_T = ("basic_istream", "basic_ifstream", "basic_istringstream", "basic_iostream", "basic_fstream", "basic_stringstream")
CTYPE = {"isdigit", "isalpha", "isalnum", "isxdigit", "isspace", "isupper", "islower", "ispunct", "isprint", "iscntrl", "isgraph"}

EOFC = "EOF"       # abstract value: the character obtained from peek()/get() at end of file
UNK = None


def is_stream_type(t):
    return any(s in t for s in STREAM_T)


def stream_of(fn, n):
    """access path of the stream object an expression denotes (looking through *, calls returning the stream)"""
    n = strip(n)
    if n is None:
        return None
    t = fn.ty(n)
    if n["k"] in ("Ref", "Member") and is_stream_type(t):
        return access_path(n)
    if n["k"] == "Unary" and n["op"] == "*":
        return stream_of(fn, n["ch"][0])
    if n["k"] == "Call" and is_stream_type(t) and n.get("ch"):
        # in.get(c), in >> x, in.ignore() ... return the stream itself
        return stream_of(fn, n["ch"][0])
    if n["k"] == "Cast":
        return stream_of(fn, n["ch"][0])
    return None


class LoopCheck:
    def __init__(self, prog, fn, consumers, assume=None):
        self.prog = prog
        self.fn = fn
        self.cfg = fn.cfg
        self.consumers = consumers      # first-party function keys that consume from an istream& parameter
        self.assume = assume or {}      # variable name -> abstract value, e.g. {"l": ("ge", 1)}

    # ---- loops --------------------------------------------------------------------------
    def loops(self):
        cfg = self.cfg
        dom = cfg.dominators()
        out = {}
        for u in dom:
            for h in cfg.succ[u]:
                if h in dom.get(u, ()):      # back edge u -> h
                    body = {h, u}
                    st = [u]
                    while st:
                        x = st.pop()
                        if x == h:
                            continue
                        for p in cfg.pred[x]:
                            if p not in body and p in dom:
                                body.add(p)
                                st.append(p)
                    out.setdefault(h, set()).update(body)
        return out

    def consuming_calls(self, blocks):
        """(call node, stream path, kind) for every consuming extraction in the given blocks"""
        res = []
        fn = self.fn
        for b in blocks:
            for e in self.cfg.blocks[b]["e"]:
                n = fn.nodes[e]
                if n["k"] != "Call":
                    continue
                short = (n.get("fn") or "").split("::")[-1]
                if (n.get("fn") or "").startswith("std::") and (short in REAL_CONSUME or n.get("opcall") == ">>"):
                    s = stream_of(fn, n["ch"][0]) if n.get("ch") else None
                    if s:
                        res.append((n, s, short))
                elif n.get("fk") in self.consumers:
                    for a in call_args(n):
                        s = stream_of(fn, a)
                        if s:
                            res.append((n, s, "call " + short))
                            break
        return res

    # ---- three-valued evaluation ----------------------------------------------------------
    def ev(self, n, S, st, mode):
        """-> True / False / None"""
        n0 = n
        n = strip(n)
        if n is None:
            return None
        fn = self.fn
        k = n["k"]
        if k in ("Int", "Bool", "Char"):
            return bool(n.get("val"))
        if "val" in n and k not in ("Ref",):
            return bool(n["val"])
        if k == "Unary" and n["op"] == "!":
            v = self.ev(n["ch"][0], S, st, mode)
            return None if v is None else (not v)
        if k == "Binary":
            op = n["op"]
            if op == "&&":
                a, b = self.ev(n["ch"][0], S, st, mode), self.ev(n["ch"][1], S, st, mode)
                if a is False or b is False:
                    return False
                return True if (a and b) else None
            if op == "||":
                a, b = self.ev(n["ch"][0], S, st, mode), self.ev(n["ch"][1], S, st, mode)
                if a or b:
                    return True
                return False if (a is False and b is False) else None
            if op == ",":
                return self.ev(n["ch"][1], S, st, mode)
            if op in ("==", "!="):
                a, b = self.val(n["ch"][0], S, st), self.val(n["ch"][1], S, st)
                r = None
                for x, y in ((a, b), (b, a)):
                    if isinstance(x, tuple) and x[0] == "ge" and isinstance(y, int) and y < x[1]:
                        r = False
                if r is None and a is not UNK and b is not UNK and not isinstance(a, tuple) and not isinstance(b, tuple):
                    if EOFC in (a, b):
                        if a == b:
                            r = True
                        elif isinstance(a, int) or isinstance(b, int):
                            other = b if a == EOFC else a
                            # (char)EOF is 0xFF / -1: equal only to -1, 255 or the EOF macro
                            r = other in (-1, 255)
                    elif isinstance(a, int) and isinstance(b, int):
                        r = (a == b)
                if r is None:
                    return None
                return r if op == "==" else (not r)
            if op in ("<", "<=", ">", ">="):
                a, b = self.val(n["ch"][0], S, st), self.val(n["ch"][1], S, st)
                if isinstance(a, int) and isinstance(b, tuple) and b[0] == "ge":
                    if op in ("<", "<=") and a < b[1]:
                        return True
                    if op in (">", ">=") and a < b[1]:
                        return False
                    return None
                if isinstance(a, tuple) or isinstance(b, tuple):
                    return None
                if isinstance(a, int) and isinstance(b, int):
                    return eval("a %s b" % op)
                if a == EOFC and isinstance(b, int):
                    # EOF = -1 as int; as char 0xFF may be -1 or 255: undecided unless both agree
                    r1, r2 = eval("-1 %s b" % op), eval("255 %s b" % op)
                    return r1 if r1 == r2 else None
                return None
            return None
        if k == "Call":
            short = (n.get("fn") or "").split("::")[-1]
            # stream state predicates
            if n.get("member") and n.get("ch"):
                s = stream_of(fn, n["ch"][0])
                if s == S:
                    if short == "good":
                        return False
                    if short == "fail":
                        return True
                    if short == "eof":
                        return mode == "A"
                    if short == "bad":
                        return False
                    if short in ("operator bool", "operator void *", "operator!"):
                        return short == "operator!"
            if n.get("opcall") == "!" and n.get("ch"):
                if stream_of(fn, n["ch"][0]) == S:
                    return True
            if short in CTYPE and n.get("ch"):
                v = self.val(n["ch"][0], S, st)
                if v == EOFC:
                    return False
                if isinstance(v, int) and 0 <= v < 128:
                    return {"isdigit": str.isdigit, "isalpha": str.isalpha, "isalnum": str.isalnum, "isspace": str.isspace,
                            "isupper": str.isupper, "islower": str.islower}.get(short, lambda c: None)(chr(v))
                return None
            if short in ("strchr", "__builtin_strchr", "index") and len(n.get("ch") or []) == 2:
                v = self.val(n["ch"][1], S, st)
                hay = strip(n["ch"][0])
                if v == EOFC and hay is not None and hay["k"] == "Str":
                    return False
                if v == EOFC:
                    return None
                if isinstance(v, int) and hay is not None and hay["k"] == "Str":
                    return (chr(v) in hay.get("s", "")) or v == 0
                return None
            return None
        if k == "Cast" or k == "Ref" or k == "Member":
            # stream in boolean context (implicit conversion call is a Call node; pointer streams differ)
            s = stream_of(fn, n)
            if s == S and is_stream_type(fn.ty(n)) and not fn.ty(n).endswith("*"):
                return False
            v = self.val(n, S, st)
            if isinstance(v, int):
                return bool(v)
            if v == EOFC:
                return True
            return None
        if k == "Assign":
            # (c = in.peek()) used as condition
            v = self.val(n, S, st)
            if isinstance(v, int):
                return bool(v)
            if v == EOFC:
                return True
            return None
        return None

    def val(self, n, S, st):
        """abstract value: int | EOFC | UNK"""
        n = strip(n)
        if n is None:
            return UNK
        k = n["k"]
        if k in ("Int", "Char", "Bool"):
            return n.get("val")
        if k == "Ref":
            if n.get("n") == "EOF":
                return -1
            if "val" in n:
                return n["val"]
            v = st.get(n.get("d"), UNK)
            if v is UNK and n.get("n") in self.assume:
                return self.assume[n["n"]]
            return v
        if "val" in n:
            return n["val"]
        if k == "Unary" and n["op"] == "-" :
            v = self.val(n["ch"][0], S, st)
            return -v if isinstance(v, int) else UNK
        if k == "Call":
            short = (n.get("fn") or "").split("::")[-1]
            if n.get("member") and n.get("ch") and stream_of(self.fn, n["ch"][0]) == S and short in ("peek", "get") \
                    and len(call_args(n)) == 0:
                return EOFC
            return UNK
        if k == "Assign":
            return self.val(n["ch"][1], S, st)
        if k == "Cast":
            return self.val(n["ch"][0], S, st)
        return UNK

    def apply(self, node, S, st, incs):
        """effects of one CFG element on the abstract variable state"""
        fn = self.fn
        for x in walk(node):
            k = x["k"]
            if k == "Assign":
                lhs = strip(x["ch"][0])
                if lhs is not None and lhs["k"] == "Ref":
                    st[lhs["d"]] = self.val(x["ch"][1], S, st)
            elif k == "Var":
                if x.get("ch") and x["ch"][0] is not None:
                    st[x["d"]] = self.val(x["ch"][0], S, st)
                else:
                    st[x["d"]] = UNK
            elif k == "CompoundAssign":
                lhs = strip(x["ch"][0])
                if lhs is not None and lhs["k"] in ("Ref", "Member"):
                    p = lhs.get("d") or access_path(lhs)
                    st[p] = UNK
                    incs.add(p)
            elif k == "Unary" and ("++" in x["op"] or "--" in x["op"]):
                t = strip(x["ch"][0])
                if t is not None and t["k"] in ("Ref", "Member"):
                    p = t.get("d") or access_path(t)
                    st[p] = UNK
                    incs.add(p)
            elif k == "Call":
                short = (x.get("fn") or "").split("::")[-1]
                onS = x.get("ch") and stream_of(fn, x["ch"][0]) == S
                if onS and (short in ("get", "operator>>", "getline", "read") or x.get("opcall") == ">>"):
                    continue     # failed extraction leaves its targets unchanged
                # any other call: by-reference / address-taken locals become unknown
                for a in call_args(x):
                    s = strip(a)
                    if s is None:
                        continue
                    if s["k"] == "Ref" and s.get("dk") in ("local", "param") and not is_stream_type(fn.ty(s)):
                        if x.get("fk"):
                            st[s["d"]] = UNK if self._maybe_written(x, s) else st.get(s["d"], UNK)
                    if s["k"] == "Unary" and s["op"] == "&":
                        t = strip(s["ch"][0])
                        if t is not None and t["k"] == "Ref":
                            st[t["d"]] = UNK

    def _maybe_written(self, call, ref):
        from absint import param_types
        pts = param_types(call.get("fk") or "")
        for a, t in zip(call_args(call), pts):
            s = strip(a)
            if s is ref or (s is not None and s.get("d") == ref.get("d")):
                if t.endswith("&") and not t.startswith("const "):
                    return True
        return False

    # ---- exploration ------------------------------------------------------------------------
    def exit_compared_vars(self, body):
        """variables (paths) compared against something in a branch condition one of whose edges leaves the loop"""
        out = set()
        for b in body:
            blk = self.cfg.blocks[b]
            tc = blk.get("tc")
            if tc is None or tc < 0:
                continue
            if not any(s >= 0 and s not in body for s in blk["s"]) and not any(
                    self._leads_out(s, body) for s in blk["s"] if s >= 0):
                continue
            cond = self.fn.nodes.get(tc)
            for x in walk(cond):
                if x["k"] in ("Ref", "Member") and not is_stream_type(self.fn.ty(x)):
                    out.add(x.get("d") or access_path(x))
        return out

    def _leads_out(self, b, body):
        # successor inside the loop body whose every path returns/breaks (block ends in return)
        blk = self.cfg.blocks.get(b)
        if blk is None:
            return False
        return any(self.fn.nodes[e]["k"] == "Return" for e in blk["e"])

    def check_loop(self, h, body, S, mode, max_states=20000):
        """Build the abstract state graph of the loop under the stuck stream and look for a cycle through
        the loop head.  -> (True, []) discharged | (False, witness) | (None, ..) state explosion"""
        cfg = self.cfg
        fn = self.fn
        exitvars = self.exit_compared_vars(body)

        def key(b, st):
            return (b, tuple(sorted((k, v) for k, v in st.items() if v is not UNK)))
        init = key(h, {})
        edges = {}
        states = {init: {}}
        work = deque([(init, frozenset())])
        seen = {(init, frozenset())}
        n_states = 0
        while work:
            (node, incs) = work.popleft()
            b = node[0]
            n_states += 1
            if n_states > max_states:
                return None, []
            blk = cfg.blocks[b]
            st = dict(node[1])
            incs2 = set(incs)
            for e in blk["e"]:
                self.apply(fn.nodes[e], S, st, incs2)
            if blk.get("noreturn"):
                continue
            succs = blk["s"]
            tc = blk.get("tc")
            cond = fn.nodes.get(tc) if tc is not None and tc >= 0 else None
            if len(succs) == 2 and cond is not None and blk.get("tkind") != "SwitchStmt":
                v = self.ev(cond, S, st, mode)
                choices = [0] if v is True else ([1] if v is False else [0, 1])
                nxt = [succs[ci] for ci in choices]
            else:
                nxt = list(succs)
            for sb in nxt:
                if sb < 0 or sb not in body:
                    continue
                if sb == h:
                    if incs2 & exitvars:
                        continue          # a counter compared in an exit condition advanced: progress
                    tgt = key(h, st)
                    edges.setdefault(node, set()).add(tgt)
                    if (tgt, frozenset()) not in seen:
                        seen.add((tgt, frozenset()))
                        work.append((tgt, frozenset()))
                else:
                    tgt = key(sb, st)
                    edges.setdefault(node, set()).add(tgt)
                    fi = frozenset(incs2 & exitvars)
                    if (tgt, fi) not in seen:
                        seen.add((tgt, fi))
                        work.append((tgt, fi))
        # cycle through a head node?
        heads = [n for n in set(edges) | {t for ts in edges.values() for t in ts} if n[0] == h]
        for hn in heads:
            # DFS from hn back to hn
            stack = [(t, [hn, t]) for t in edges.get(hn, ())]
            vis = set()
            while stack:
                x, path = stack.pop()
                if x == hn:
                    return False, [n[0] for n in path]
                if x in vis:
                    continue
                vis.add(x)
                for t in edges.get(x, ()):
                    stack.append((t, path + [t]))
        return True, []

    def run(self):
        """-> list of site dicts"""
        fn = self.fn
        cfg = self.cfg
        if cfg is None:
            return []
        sites = []
        for h, body in self.loops().items():
            cons = self.consuming_calls(body)
            if not cons:
                continue
            streams = sorted({s for _, s, _ in cons})
            head = cfg.blocks[h]
            line = None
            tk = head.get("tk")
            if tk is not None and tk >= 0 and tk in fn.nodes:
                line = fn.nodes[tk]["l"]
            if line is None:
                for b in sorted(body, reverse=True):
                    es = cfg.blocks[b]["e"]
                    if es:
                        line = fn.nodes[es[0]]["l"]
                        break
            for S in streams:
                modes = ["A"]
                can_fail_noeof = False
                for c, s, kind in cons:
                    if s != S:
                        continue
                    if kind in ("getline",):
                        can_fail_noeof = True
                    if kind == "get" and len(call_args(c)) >= 2:
                        can_fail_noeof = True
                    if kind == "operator>>" or c.get("opcall") == ">>":
                        tgt = strip(c["ch"][1]) if len(c["ch"]) > 1 else None
                        if tgt is not None and fn.ty(tgt) in ("int", "long", "double", "float", "unsigned int", "long long", "short"):
                            can_fail_noeof = True
                cleared = any(n["k"] == "Call" and (n.get("fn") or "").split("::")[-1] == "clear" and n.get("ch") and
                              stream_of(fn, n["ch"][0]) == S for b in body for e in cfg.blocks[b]["e"] for n in [fn.nodes[e]])
                if can_fail_noeof and not cleared:
                    modes.append("B")
                for mode in modes:
                    ok, wit = self.check_loop(h, body, S, mode)
                    sites.append({"head": h, "line": line, "stream": S, "mode": mode, "ok": ok,
                                  "witness": [self._blk_line(b) for b in wit][:12],
                                  "extractions": sorted({k for _, s, k in cons if s == S})})
        return sites

    def _blk_line(self, b):
        es = self.cfg.blocks[b]["e"]
        return self.fn.nodes[es[0]]["l"] if es else None


def consumer_functions(prog):
    """keys of first-party functions that (transitively) extract from an istream parameter"""
    direct = set()
    for f in prog.all_functions():
        if not any(is_stream_type(f.tyname(p["t"])) for p in f.params):
            continue
        for n in f.walk():
            if n["k"] == "Call" and (n.get("fn") or "").startswith("std::"):
                short = n["fn"].split("::")[-1]
                if short in REAL_CONSUME or n.get("opcall") == ">>":
                    if n.get("ch") and stream_of(f, n["ch"][0]):
                        direct.add(f.key)
                        break
    # transitive closure over calls that pass a stream along
    changed = True
    cons = set(direct)
    while changed:
        changed = False
        for f in prog.all_functions():
            if f.key in cons or not any(is_stream_type(f.tyname(p["t"])) for p in f.params):
                continue
            for n in f.walk():
                if n["k"] == "Call" and n.get("fk") in cons and any(stream_of(f, a) for a in call_args(n)):
                    cons.add(f.key)
                    changed = True
                    break
    return cons
