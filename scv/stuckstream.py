"""E3 `stuckstream` — every loop that pulls characters from a stream leaves when the stream is stuck.

Two abstract stuck states are imposed at the loop head and one abstract iteration is explored
path-sensitively with three-valued evaluation of the branch conditions (DESIGN §3/E3):
  A  end of file : good()=false eof()=true fail()=true (bool)S=false peek()/get()=EOF,
                   get(c) / S >> c leave c unchanged
  B  fail, no eof: as A but eof()=false   (only for loops that contain an extraction which can fail
                   without reaching end of file: numeric >>, getline/get with a length limit)
A loop is discharged when no path leads from the loop head back to the loop head.
Paths that advance a counter which is compared in an exit condition of the loop count as progress.
"""
from collections import deque

from engines import call_args
from ir import walk, strip, expr_str, access_path

CONSUME = {"get", "getline", "ignore", "read", "readsome", "operator>>", "unget", "putback", "seekg", "peek"}
REAL_CONSUME = {"get", "getline", "ignore", "read", "readsome", "operator>>"}
STREAM_T = ("basic_istream", "basic_ifstream", "basic_istringstream", "basic_iostream", "basic_fstream", "basic_stringstream")
CTYPE = {"isdigit", "isalpha", "isalnum", "isxdigit", "isspace", "isupper", "islower", "ispunct", "isprint", "iscntrl", "isgraph"}

EOFC = "EOF"       # abstract value: the character obtained from peek()/get() at end of file
UNK = None


def is_stream_type(t):
    return any(s in t for s in STREAM_T)


def stream_of(fn, n):
    """access path of the stream object an expression denotes (looking through *, calls returning the stream)"""
    n = strip(n)
    if n is None:
        return None
    t = fn.ty(n)
    if n["k"] in ("Ref", "Member") and is_stream_type(t):
        return access_path(n)
    if n["k"] == "Unary" and n["op"] == "*":
        return stream_of(fn, n["ch"][0])
    if n["k"] == "Call" and is_stream_type(t) and n.get("ch"):
        # in.get(c), in >> x, in.ignore() ... return the stream itself
        return stream_of(fn, n["ch"][0])
    if n["k"] == "Cast":
        return stream_of(fn, n["ch"][0])
    return None


class LoopCheck:
    def __init__(self, prog, fn, consumers, assume=None):
        self.prog = prog
        self.fn = fn
        self.cfg = fn.cfg
        self.consumers = consumers      # first-party function keys that consume from an istream& parameter
        self.assume = assume or {}      # variable name -> abstract value, e.g. {"l": ("ge", 1)}

    # ---- loops --------------------------------------------------------------------------
    def loops(self):
        cfg = self.cfg
        dom = cfg.dominators()
        out = {}
        for u in dom:
            for h in cfg.succ[u]:
                if h in dom.get(u, ()):      # back edge u -> h
                    body = {h, u}
                    st = [u]
                    while st:
                        x = st.pop()
                        if x == h:
                            continue
                        for p in cfg.pred[x]:
                            if p not in body and p in dom:
                                body.add(p)
                                st.append(p)
                    out.setdefault(h, set()).update(body)
        return out

    def consuming_calls(self, blocks):
        """(call node, stream path, kind) for every consuming extraction in the given blocks"""
        res = []
        fn = self.fn
        for b in blocks:
            for e in self.cfg.blocks[b]["e"]:
                n = fn.nodes[e]
                if n["k"] != "Call":
                    continue
                short = (n.get("fn") or "").split("::")[-1]
                if (n.get("fn") or "").startswith("std::") and (short in REAL_CONSUME or n.get("opcall") == ">>"):
                    s = stream_of(fn, n["ch"][0]) if n.get("ch") else None
                    if s:
                        res.append((n, s, short))
                elif n.get("fk") in self.consumers:
                    for a in call_args(n):
                        s = stream_of(fn, a)
                        if s:
                            res.append((n, s, "call " + short))
                            break
        return res

    # ---- three-valued evaluation ----------------------------------------------------------
    def ev(self, n, S, st, mode):
        """-> True / False / None"""
        n0 = n
        n = strip(n)
        if n is None:
            return None
        fn = self.fn
        k = n["k"]
        if k in ("Int", "Bool", "Char"):
            return bool(n.get("val"))
        if "val" in n and k not in ("Ref",):
            return bool(n["val"])
        if k == "Unary" and n["op"] == "!":
            v = self.ev(n["ch"][0], S, st, mode)
            return None if v is None else (not v)
        if k == "Binary":
            op = n["op"]
            if op == "&&":
                a, b = self.ev(n["ch"][0], S, st, mode), self.ev(n["ch"][1], S, st, mode)
                if a is False or b is False:
                    return False
                return True if (a and b) else None
            if op == "||":
                a, b = self.ev(n["ch"][0], S, st, mode), self.ev(n["ch"][1], S, st, mode)
                if a or b:
                    return True
                return False if (a is False and b is False) else None
            if op == ",":
                return self.ev(n["ch"][1], S, st, mode)
            if op in ("==", "!="):
                a, b = self.val(n["ch"][0], S, st), self.val(n["ch"][1], S, st)
                r = None
                for x, y in ((a, b), (b, a)):
                    if isinstance(x, tuple) and x[0] == "ge" and isinstance(y, int) and y < x[1]:
                        r = False
                if r is None and a is not UNK and b is not UNK and not isinstance(a, tuple) and not isinstance(b, tuple):
                    if EOFC in (a, b):
                        if a == b:
                            r = True
                        elif isinstance(a, int) or isinstance(b, int):
                            other = b if a == EOFC else a
                            # (char)EOF is 0xFF / -1: equal only to -1, 255 or the EOF macro
                            r = other in (-1, 255)
                    elif isinstance(a, int) and isinstance(b, int):
                        r = (a == b)
                if r is None:
                    return None
                return r if op == "==" else (not r)
            if op in ("<", "<=", ">", ">="):
                a, b = self.val(n["ch"][0], S, st), self.val(n["ch"][1], S, st)
                if isinstance(a, int) and isinstance(b, tuple) and b[0] == "ge":
                    if op in ("<", "<=") and a < b[1]:
                        return True
                    if op in (">", ">=") and a < b[1]:
                        return False
                    return None
                if isinstance(a, tuple) or isinstance(b, tuple):
                    return None
                if isinstance(a, int) and isinstance(b, int):
                    return eval("a %s b" % op)
                if a == EOFC and isinstance(b, int):
                    # EOF = -1 as int; as char 0xFF may be -1 or 255: undecided unless both agree
                    r1, r2 = eval("-1 %s b" % op), eval("255 %s b" % op)
                    return r1 if r1 == r2 else None
                return None
            return None
        if k == "Call":
            short = (n.get("fn") or "").split("::")[-1]
            # stream state predicates
            if n.get("member") and n.get("ch"):
                s = stream_of(fn, n["ch"][0])
                if s == S:
                    if short == "good":
                        return False
                    if short == "fail":
                        return True
                    if short == "eof":
                        return mode == "A"
                    if short == "bad":
                        return False
                    if short in ("operator bool", "operator void *", "operator!"):
                        return short == "operator!"
            if n.get("opcall") == "!" and n.get("ch"):
                if stream_of(fn, n["ch"][0]) == S:
                    return True
            if short in CTYPE and n.get("ch"):
                v = self.val(n["ch"][0], S, st)
                if v == EOFC:
                    return False
                if isinstance(v, int) and 0 <= v < 128:
                    return {"isdigit": str.isdigit, "isalpha": str.isalpha, "isalnum": str.isalnum, "isspace": str.isspace,
                            "isupper": str.isupper, "islower": str.islower}.get(short, lambda c: None)(chr(v))
                return None
            if short in ("strchr", "__builtin_strchr", "index") and len(n.get("ch") or []) == 2:
                v = self.val(n["ch"][1], S, st)
                hay = strip(n["ch"][0])
                if v == EOFC and hay is not None and hay["k"] == "Str":
                    return False
                if v == EOFC:
                    return None
                if isinstance(v, int) and hay is not None and hay["k"] == "Str":
                    return (chr(v) in hay.get("s", "")) or v == 0
                return None
            return None
        if k == "Cast" or k == "Ref" or k == "Member":
            # stream in boolean context (implicit conversion call is a Call node; pointer streams differ)
            s = stream_of(fn, n)
            if s == S and is_stream_type(fn.ty(n)) and not fn.ty(n).endswith("*"):
                return False
            v = self.val(n, S, st)
            if isinstance(v, int):
                return bool(v)
            if v == EOFC:
                return True
            return None
        if k == "Assign":
            # (c = in.peek()) used as condition
            v = self.val(n, S, st)
            if isinstance(v, int):
                return bool(v)
            if v == EOFC:
                return True
            return None
        return None

    def val(self, n, S, st):
        """abstract value: int | EOFC | UNK"""
        n = strip(n)
        if n is None:
            return UNK
        k = n["k"]
        if k in ("Int", "Char", "Bool"):
            return n.get("val")
        if k == "Ref":
            if n.get("n") == "EOF":
                return -1
            if "val" in n:
                return n["val"]
            v = st.get(n.get("d"), UNK)
            if v is UNK and n.get("n") in self.assume:
                return self.assume[n["n"]]
            return v
        if "val" in n:
            return n["val"]
        if k == "Unary" and n["op"] == "-" :
            v = self.val(n["ch"][0], S, st)
            return -v if isinstance(v, int) else UNK
        if k == "Call":
            short = (n.get("fn") or "").split("::")[-1]
            if n.get("member") and n.get("ch") and stream_of(self.fn, n["ch"][0]) == S and short in ("peek", "get") \
                    and len(call_args(n)) == 0:
                return EOFC
            return UNK
        if k == "Assign":
            return self.val(n["ch"][1], S, st)
        if k == "Cast":
            return self.val(n["ch"][0], S, st)
        return UNK

    def apply(self, node, S, st, incs):
        """effects of one CFG element on the abstract variable state"""
        fn = self.fn
        for x in walk(node):
            k = x["k"]
            if k == "Assign":
                lhs = strip(x["ch"][0])
                if lhs is not None and lhs["k"] == "Ref":
                    st[lhs["d"]] = self.val(x["ch"][1], S, st)
            elif k == "Var":
                if x.get("ch") and x["ch"][0] is not None:
                    st[x["d"]] = self.val(x["ch"][0], S, st)
                else:
                    st[x["d"]] = UNK
            elif k == "CompoundAssign":
                lhs = strip(x["ch"][0])
                if lhs is not None and lhs["k"] in ("Ref", "Member"):
                    p = lhs.get("d") or access_path(lhs)
                    st[p] = UNK
                    incs.add(p)
            elif k == "Unary" and ("++" in x["op"] or "--" in x["op"]):
                t = strip(x["ch"][0])
                if t is not None and t["k"] in ("Ref", "Member"):
                    p = t.get("d") or access_path(t)
                    st[p] = UNK
                    incs.add(p)
            elif k == "Call":
                short = (x.get("fn") or "").split("::")[-1]
                onS = x.get("ch") and stream_of(fn, x["ch"][0]) == S
                if onS and (short in ("get", "operator>>", "getline", "read") or x.get("opcall") == ">>"):
                    continue     # failed extraction leaves its targets unchanged
                # any other call: by-reference / address-taken locals become unknown
                for a in call_args(x):
                    s = strip(a)
                    if s is None:
                        continue
                    if s["k"] == "Ref" and s.get("dk") in ("local", "param") and not is_stream_type(fn.ty(s)):
                        if x.get("fk"):
                            st[s["d"]] = UNK if self._maybe_written(x, s) else st.get(s["d"], UNK)
                    if s["k"] == "Unary" and s["op"] == "&":
                        t = strip(s["ch"][0])
                        if t is not None and t["k"] == "Ref":
                            st[t["d"]] = UNK

    def _maybe_written(self, call, ref):
        from absint import param_types
        pts = param_types(call.get("fk") or "")
        for a, t in zip(call_args(call), pts):
            s = strip(a)
            if s is ref or (s is not None and s.get("d") == ref.get("d")):
                if t.endswith("&") and not t.startswith("const "):
                    return True
        return False

    # ---- exploration ------------------------------------------------------------------------
    def exit_compared_vars(self, body):
        """variables (paths) compared against something in a branch condition one of whose edges leaves the loop"""
        out = set()
        for b in body:
            blk = self.cfg.blocks[b]
            tc = blk.get("tc")
            if tc is None or tc < 0:
                continue
            if not any(s >= 0 and s not in body for s in blk["s"]) and not any(
                    self._leads_out(s, body) for s in blk["s"] if s >= 0):
                continue
            cond = self.fn.nodes.get(tc)
            for x in walk(cond):
                if x["k"] in ("Ref", "Member") and not is_stream_type(self.fn.ty(x)):
                    out.add(x.get("d") or access_path(x))
        return out

    def _leads_out(self, b, body):
        # successor inside the loop body whose every path returns/breaks (block ends in return)
        blk = self.cfg.blocks.get(b)
        if blk is None:
            return False
        return any(self.fn.nodes[e]["k"] == "Return" for e in blk["e"])

    def check_loop(self, h, body, S, mode, max_states=20000):
        """Build the abstract state graph of the loop under the stuck stream and look for a cycle through
        the loop head.  -> (True, []) discharged | (False, witness) | (None, ..) state explosion"""
        cfg = self.cfg
        fn = self.fn
        exitvars = self.exit_compared_vars(body)

        def key(b, st):
            return (b, tuple(sorted((k, v) for k, v in st.items() if v is not UNK)))
        init = key(h, {})
        edges = {}
        states = {init: {}}
        work = deque([(init, frozenset())])
        seen = {(init, frozenset())}
        n_states = 0
        while work:
            (node, incs) = work.popleft()
            b = node[0]
            n_states += 1
            if n_states > max_states:
                return None, []
            blk = cfg.blocks[b]
            st = dict(node[1])
            incs2 = set(incs)
            for e in blk["e"]:
                self.apply(fn.nodes[e], S, st, incs2)
            if blk.get("noreturn"):
                continue
            succs = blk["s"]
            tc = blk.get("tc")
            cond = fn.nodes.get(tc) if tc is not None and tc >= 0 else None
            if len(succs) == 2 and cond is not None and blk.get("tkind") != "SwitchStmt":
                v = self.ev(cond, S, st, mode)
                choices = [0] if v is True else ([1] if v is False else [0, 1])
                nxt = [succs[ci] for ci in choices]
            else:
                nxt = list(succs)
            for sb in nxt:
                if sb < 0 or sb not in body:
                    continue
                if sb == h:
                    if incs2 & exitvars:
                        continue          # a counter compared in an exit condition advanced: progress
                    tgt = key(h, st)
                    edges.setdefault(node, set()).add(tgt)
                    if (tgt, frozenset()) not in seen:
                        seen.add((tgt, frozenset()))
                        work.append((tgt, frozenset()))
                else:
                    tgt = key(sb, st)
                    edges.setdefault(node, set()).add(tgt)
                    fi = frozenset(incs2 & exitvars)
                    if (tgt, fi) not in seen:
                        seen.add((tgt, fi))
                        work.append((tgt, fi))
        # cycle through a head node?
        heads = [n for n in set(edges) | {t for ts in edges.values() for t in ts} if n[0] == h]
        for hn in heads:
            # DFS from hn back to hn
            stack = [(t, [hn, t]) for t in edges.get(hn, ())]
            vis = set()
            while stack:
                x, path = stack.pop()
                if x == hn:
                    return False, [n[0] for n in path]
                if x in vis:
                    continue
                vis.add(x)
                for t in edges.get(x, ()):
                    stack.append((t, path + [t]))
        return True, []

    def run(self):
        """-> list of site dicts"""
        fn = self.fn
        cfg = self.cfg
        if cfg is None:
            return []
        sites = []
        for h, body in self.loops().items():
            cons = self.consuming_calls(body)
            if not cons:
                continue
            streams = sorted({s for _, s, _ in cons})
            head = cfg.blocks[h]
            line = None
            tk = head.get("tk")
            if tk is not None and tk >= 0 and tk in fn.nodes:
                line = fn.nodes[tk]["l"]
            if line is None:
                for b in sorted(body, reverse=True):
                    es = cfg.blocks[b]["e"]
                    if es:
                        line = fn.nodes[es[0]]["l"]
                        break
            for S in streams:
                modes = ["A"]
                can_fail_noeof = False
                for c, s, kind in cons:
                    if s != S:
                        continue
                    if kind in ("getline",):
                        can_fail_noeof = True
                    if kind == "get" and len(call_args(c)) >= 2:
                        can_fail_noeof = True
                    if kind == "operator>>" or c.get("opcall") == ">>":
                        tgt = strip(c["ch"][1]) if len(c["ch"]) > 1 else None
                        if tgt is not None and fn.ty(tgt) in ("int", "long", "double", "float", "unsigned int", "long long", "short"):
                            can_fail_noeof = True
                cleared = any(n["k"] == "Call" and (n.get("fn") or "").split("::")[-1] == "clear" and n.get("ch") and
                              stream_of(fn, n["ch"][0]) == S for b in body for e in cfg.blocks[b]["e"] for n in [fn.nodes[e]])
                if can_fail_noeof and not cleared:
                    modes.append("B")
                for mode in modes:
                    ok, wit = self.check_loop(h, body, S, mode)
                    sites.append({"head": h, "line": line, "stream": S, "mode": mode, "ok": ok,
                                  "witness": [self._blk_line(b) for b in wit][:12],
                                  "extractions": sorted({k for _, s, k in cons if s == S})})
        return sites

    def _blk_line(self, b):
        es = self.cfg.blocks[b]["e"]
        return self.fn.nodes[es[0]]["l"] if es else None


def member_stream(f):
    """access path `this.<member>` of the stream member a method extracts from (None if it has a stream parameter)"""
    if any(is_stream_type(f.tyname(p["t"])) for p in f.params) or not f.cls:
        return None
    for n in f.walk():
        if n["k"] == "Call" and n.get("ch"):
            s = stream_of(f, n["ch"][0])
            if s and s.startswith("this."):
                return s
    return None


def consumer_functions(prog):
    """keys of first-party functions that (transitively) extract from an istream parameter
    (or, for methods, from a stream member of their own object)"""
    direct = set()
    for f in prog.all_functions():
        if not any(is_stream_type(f.tyname(p["t"])) for p in f.params):
            ms = member_stream(f)
            if ms:
                for n in f.walk():
                    if n["k"] == "Call" and (n.get("fn") or "").startswith("std::"):
                        short = n["fn"].split("::")[-1]
                        if (short in REAL_CONSUME or n.get("opcall") == ">>") and n.get("ch") and stream_of(f, n["ch"][0]) == ms:
                            direct.add(f.key)
                            break
            continue
        for n in f.walk():
            if n["k"] == "Call" and (n.get("fn") or "").startswith("std::"):
                short = n["fn"].split("::")[-1]
                if short in REAL_CONSUME or n.get("opcall") == ">>":
                    if n.get("ch") and stream_of(f, n["ch"][0]):
                        direct.add(f.key)
                        break
    # transitive closure over calls that pass a stream along
    changed = True
    cons = set(direct)
    while changed:
        changed = False
        for f in prog.all_functions():
            if f.key in cons or not any(is_stream_type(f.tyname(p["t"])) for p in f.params):
                continue
            for n in f.walk():
                if n["k"] == "Call" and n.get("fk") in cons and any(stream_of(f, a) for a in call_args(n)):
                    cons.add(f.key)
                    changed = True
                    break
    return cons


# ---------------------------------------------------------------------------------------------------
# E3b `progress` — with a *good* stream, every iteration of a loop that dispatches on the look-ahead
# character consumes at least one character (otherwise the same character is seen again: livelock).
# Abstract machine: look-ahead L (known char / unknown), tracked char variables, net consumption
# (get/ignore/>>char = +1, putback/unget = -1); first-party consumers are summarised per look-ahead.
# ---------------------------------------------------------------------------------------------------
class Progress:
    MAXDEPTH = 3

    def __init__(self, prog, consumers):
        self.prog = prog
        self.consumers = consumers
        self.memo = {}
        self.bykey = {}
        for (k, _), f in prog.functions.items():
            self.bykey.setdefault(k, []).append(f)

    # ---- helpers on one function ---------------------------------------------------------
    def _stream_param(self, f):
        for p in f.params:
            if is_stream_type(f.tyname(p["t"])):
                return p["d"]
        return None

    def run_region(self, f, S, start_block, start_state, stop_blocks, body=None, depth=0, max_states=6000):
        """Explore from start_block; returns list of (end_kind, block, state) where end_kind in
        'stop' (reached a stop block) / 'return' / 'exit' (left `body`).  state = (vars, L, consumed)."""
        cfg = f.cfg
        outs = []
        seen = set()
        work = [(start_block, start_state, True)]
        n = 0
        while work:
            b, (vs, L, cons), first = work.pop()
            cons = max(-3, min(3, cons))       # saturate: >= 1 is progress, a few putbacks stay visible
            if b in stop_blocks and not first:
                outs.append(("stop", b, (vs, L, cons)))
                continue
            if body is not None and b not in body:
                outs.append(("exit", b, (vs, L, cons)))
                continue
            key = (b, tuple(sorted(vs.items())), L, cons)
            if key in seen:
                continue
            seen.add(key)
            n += 1
            if n > max_states:
                outs.append(("explosion", b, (vs, L, cons)))
                return outs
            blk = cfg.blocks[b]
            states = [(dict(vs), L, cons)]
            returned = False
            for e in blk["e"]:
                node = f.nodes[e]
                new_states = []
                for st in states:
                    new_states.extend(self.apply(f, S, node, st, depth))
                states = new_states[:64]
                if node["k"] == "Return":
                    returned = True
            if returned or b == cfg.exit:
                for st in states:
                    outs.append(("return", b, st))
                continue
            if blk.get("noreturn"):
                continue
            succs = blk["s"]
            tc = blk.get("tc")
            cond = f.nodes.get(tc) if tc is not None and tc >= 0 else None
            for (vs2, L2, c2) in states:
                if blk.get("tkind") == "SwitchStmt" and cond is not None:
                    pass
                if any(k0.startswith("@ret:") for k0 in vs2):
                    keep = dict(vs2)
                else:
                    keep = vs2
                if blk.get("tkind") == "SwitchStmt" and cond is not None:
                    v = self.value(f, S, cond, vs2, L2)
                    targets = []
                    default = None
                    for s in succs:
                        if s < 0:
                            continue
                        lb = cfg.blocks[s].get("lb")
                        ln = f.nodes.get(lb) if lb is not None and lb >= 0 else None
                        if ln is not None and ln["k"] == "Case":
                            if isinstance(v, int):
                                if ln.get("val") == v:
                                    targets.append((s, vs2, L2))
                            else:
                                # unknown selector: the arm is taken with the selector equal to its label
                                vs3 = dict(vs2)
                                sel = strip(cond)
                                L3 = L2
                                if sel is not None and sel["k"] == "Ref":
                                    vs3[sel["d"]] = ln.get("val")
                                    if vs2.get("@peek:" + sel["d"]):
                                        L3 = ln.get("val")
                                targets.append((s, vs3, L3))
                        else:
                            default = s
                    if default is not None and (not isinstance(v, int) or not targets):
                        targets.append((default, vs2, L2))
                    if isinstance(v, int) and targets:
                        targets = targets[:1]
                    for s, vs3, L3 in targets:
                        work.append((s, (vs3, L3, c2), False))
                elif len(succs) == 2 and cond is not None:
                    v = self.truth(f, S, cond, vs2, L2)
                    choices = [0] if v is True else ([1] if v is False else [0, 1])
                    for ci in choices:
                        s = succs[ci]
                        if s >= 0:
                            work.append((s, (vs2, L2, c2), False))
                else:
                    for s in succs:
                        if s >= 0:
                            work.append((s, (vs2, L2, c2), False))
        return outs

    # ---- abstract values --------------------------------------------------------------------
    def value(self, f, S, n, vs, L):
        n = strip(n)
        if n is None:
            return None
        k = n["k"]
        if k in ("Int", "Char", "Bool"):
            return n.get("val")
        if k == "Ref":
            if "val" in n:
                return n["val"]
            return vs.get(n.get("d"))
        if "val" in n:
            return n["val"]
        if k == "Call" and n.get("member") and n.get("ch") and stream_of(f, n["ch"][0]) == S:
            short = (n.get("fn") or "").split("::")[-1]
            if short == "peek":
                return L
            if short == "get" and len(call_args(n)) == 0:
                return vs.get("@ret:%d" % n["i"])
        if k == "Assign":
            return self.value(f, S, n["ch"][1], vs, L)
        if k == "Binary" and n["op"] == ",":
            return self.value(f, S, n["ch"][1], vs, L)
        if k == "Cast":
            return self.value(f, S, n["ch"][0], vs, L)
        return None

    def truth(self, f, S, n, vs, L):
        n = strip(n)
        if n is None:
            return None
        k = n["k"]
        if k == "Unary" and n["op"] == "!":
            v = self.truth(f, S, n["ch"][0], vs, L)
            return None if v is None else (not v)
        if k == "Binary":
            op = n["op"]
            if op == "&&":
                a, b = self.truth(f, S, n["ch"][0], vs, L), self.truth(f, S, n["ch"][1], vs, L)
                if a is False or b is False:
                    return False
                return True if (a and b) else None
            if op == "||":
                a, b = self.truth(f, S, n["ch"][0], vs, L), self.truth(f, S, n["ch"][1], vs, L)
                if a or b:
                    return True
                return False if (a is False and b is False) else None
            if op in ("==", "!="):
                a, b = self.value(f, S, n["ch"][0], vs, L), self.value(f, S, n["ch"][1], vs, L)
                if isinstance(a, int) and isinstance(b, int):
                    return (a == b) if op == "==" else (a != b)
                return None
            return None
        if k == "Call":
            short = (n.get("fn") or "").split("::")[-1]
            if n.get("member") and n.get("ch") and stream_of(f, n["ch"][0]) == S:
                if vs.get("$bad"):
                    # the code itself has put the stream into a failed state on this path (setstate(failbit))
                    if short in ("good", "operator bool", "operator void *"):
                        return False
                    if short in ("fail", "operator!"):
                        return True
                    return None
                # the stream is good and has content in this mode
                if short in ("good", "operator bool", "operator void *"):
                    return True
                if short in ("eof", "fail", "bad", "operator!"):
                    return False
            if n.get("opcall") == "!" and n.get("ch") and stream_of(f, n["ch"][0]) == S:
                return True if vs.get("$bad") else False
            if short in ("strchr", "__builtin_strchr") and len(n.get("ch") or []) == 2:
                hay = strip(n["ch"][0])
                hs = None
                if hay is not None and hay["k"] == "Str":
                    hs = hay.get("s", "")
                elif hay is not None and hay["k"] == "Ref" and isinstance(vs.get(hay.get("d")), tuple):
                    hs = vs[hay["d"]][1]
                v = self.value(f, S, n["ch"][1], vs, L)
                if hs is not None and isinstance(v, int):
                    return (chr(v & 0xff) in hs) or v == 0
                return None
            if short in CTYPE and n.get("ch"):
                v = self.value(f, S, n["ch"][0], vs, L)
                if isinstance(v, int) and 0 <= v < 128:
                    fn = {"isdigit": str.isdigit, "isalpha": str.isalpha, "isalnum": str.isalnum, "isspace": str.isspace,
                          "isupper": str.isupper, "islower": str.islower}.get(short)
                    return fn(chr(v)) if fn else None
                return None
            return None
        if k in ("Ref", "Member", "Cast"):
            if stream_of(f, n) == S and is_stream_type(f.ty(n)) and not f.ty(n).endswith("*"):
                return False if vs.get("$bad") else True
            v = self.value(f, S, n, vs, L)
            return bool(v) if isinstance(v, int) else None
        v = self.value(f, S, n, vs, L)
        return bool(v) if isinstance(v, int) else None

    # ---- transfer -----------------------------------------------------------------------------
    def apply(self, f, S, node, st, depth):
        """-> list of successor states (vars, L, consumed)"""
        states = [st]
        # evaluate calls / assignments in evaluation order (post-order over the element)
        order = []
        stack = [node]
        while stack:
            x = stack.pop()
            if x is None:
                continue
            order.append(x)
            for c in (x.get("ch") or []):
                if c is not None and not (c["i"] in f.cfg.pos and c is not node):
                    stack.append(c)
        for x in reversed(order):
            new = []
            for (vs, L, cons) in states:
                new.extend(self._one(f, S, x, vs, L, cons, depth))
            states = new[:64]
        return states

    def _one(self, f, S, x, vs, L, cons, depth):
        k = x["k"]
        if k == "Assign":
            lhs = strip(x["ch"][0])
            if lhs is not None and lhs["k"] == "Ref":
                vs = dict(vs)
                rhs = strip(x["ch"][1])
                v = self.value(f, S, x["ch"][1], vs, L)
                is_peek = rhs is not None and rhs["k"] == "Call" and (rhs.get("fn") or "").endswith("::peek")
                while rhs is not None and rhs["k"] == "Cast":
                    rhs = strip(rhs["ch"][0])
                    is_peek = rhs is not None and rhs["k"] == "Call" and (rhs.get("fn") or "").endswith("::peek")
                if v is None:
                    vs.pop(lhs["d"], None)
                else:
                    vs[lhs["d"]] = v
                if is_peek:
                    vs["@peek:" + lhs["d"]] = 1
                else:
                    vs.pop("@peek:" + lhs["d"], None)
            return [(vs, L, cons)]
        if (k == "Unary" and ("++" in x["op"] or "--" in x["op"])) or k == "CompoundAssign":
            t = strip(x["ch"][0])
            if t is not None and t["k"] in ("Ref", "Member"):
                vs = dict(vs)
                pth = t.get("d") or access_path(t)
                vs.pop(pth, None)
                if pth in getattr(self, "_exitvars", ()):
                    vs["@inc"] = 1
            return [(vs, L, cons)]
        if k == "Var":
            vs = dict(vs)
            if x.get("ch") and x["ch"][0] is not None:
                v = self.value(f, S, x["ch"][0], vs, L)
                if v is None:
                    vs.pop(x["d"], None)
                else:
                    vs[x["d"]] = v
            else:
                vs.pop(x["d"], None)
            return [(vs, L, cons)]
        if k not in ("Call", "Construct"):
            return [(vs, L, cons)]
        short = (x.get("fn") or "").split("::")[-1]
        args = call_args(x) if k == "Call" else (x.get("ch") or [])
        onS = bool(x.get("ch")) and stream_of(f, x["ch"][0]) == S
        if (x.get("fn") or "").startswith("std::") and onS:
            vs = dict(vs)
            if short == "peek":
                return [(vs, L, cons)]
            if short == "get":
                if len(args) == 0:
                    if isinstance(L, int):
                        vs["@ret:%d" % x["i"]] = L
                    else:
                        vs.pop("@ret:%d" % x["i"], None)
                    return [(vs, None, cons + 1)]
                if len(args) == 1:
                    t = strip(args[0])
                    if t is not None and t["k"] == "Ref":
                        if L is None:
                            vs.pop(t["d"], None)
                        else:
                            vs[t["d"]] = L
                        vs.pop("@peek:" + t["d"], None)
                    return [(vs, None, cons + 1)]
                return [(vs, None, cons)]       # get(buf, n): may read nothing
            if short == "ignore":
                return [(vs, None, cons + 1)]
            if short == "putback":
                v = self.value(f, S, args[0], vs, L) if args else None
                return [(vs, v, cons - 1)]
            if short == "unget":
                return [(vs, None, cons - 1)]
            if x.get("opcall") == ">>" or short == "operator>>":
                tgt = strip(x["ch"][1]) if len(x["ch"]) > 1 else None
                if tgt is not None and tgt["k"] == "Ref" and tgt.get("n") == "ws":
                    if isinstance(L, int) and not chr(L & 0x7f).isspace():
                        return [(vs, L, cons)]
                    return [(vs, None if not isinstance(L, int) else None, cons)]
                if tgt is not None and tgt["k"] == "Ref" and f.ty(tgt) in ("char", "unsigned char", "signed char"):
                    if isinstance(L, int) and not chr(L & 0x7f).isspace():
                        vs[tgt["d"]] = L
                    else:
                        vs.pop(tgt["d"], None)
                    vs.pop("@peek:" + tgt["d"], None)
                    return [(vs, None, cons + 1)]
                if tgt is not None and tgt["k"] == "Ref":
                    vs.pop(tgt["d"], None)
                return [(vs, None, cons)]
            if short == "setstate":
                # setstate(failbit / badbit): every later test of the stream on this path fails
                if any(y["k"] == "Ref" and y.get("n") in ("failbit", "badbit") for a in args for y in walk(a)):
                    vs["$bad"] = 1
                return [(vs, L, cons)]
            if short == "clear":
                vs.pop("$bad", None)
                return [(vs, None, cons)]
            if short in ("getline", "read", "readsome", "seekg"):
                return [(vs, None, cons)]
            return [(vs, L, cons)]
        # method of the same object consuming from the same member stream
        if x.get("fk") in self.consumers and x.get("member") and S.startswith("this.") and x.get("ch") and \
                strip(x["ch"][0]) is not None and strip(x["ch"][0])["k"] == "This" and not any(stream_of(f, a) for a in args):
            outs = self.summary(x["fk"], L, depth, member=S, strargs=self._strargs(args))
            return [(dict(vs, **{"$bad": 1}) if L2 == "BAD" else dict(vs), None if L2 == "BAD" else L2, cons + d) for (d, L2) in outs]
        # first-party consumer receiving the stream
        if x.get("fk") in self.consumers and any(stream_of(f, a) == S for a in args):
            outs = self.summary(x["fk"], L, depth, strargs=self._strargs(args))
            vs = dict(vs)
            from absint import param_types
            pts = param_types(x.get("fk") or "")
            for a, t in zip(args, pts):
                s = strip(a)
                if s is not None and s["k"] == "Ref" and t.endswith("&") and not t.startswith("const ") and not is_stream_type(t):
                    vs.pop(s["d"], None)
                if s is not None and s["k"] == "Unary" and s["op"] == "&":
                    t0 = strip(s["ch"][0])
                    if t0 is not None and t0["k"] == "Ref":
                        vs.pop(t0["d"], None)
            return [(dict(vs, **{"$bad": 1}) if L2 == "BAD" else vs, None if L2 == "BAD" else L2, cons + d) for (d, L2) in outs]
        # any other call: locals passed by reference / address become unknown
        vs2 = None
        for a in args:
            s = strip(a)
            if s is not None and s["k"] == "Unary" and s["op"] == "&":
                t0 = strip(s["ch"][0])
                if t0 is not None and t0["k"] == "Ref" and t0["d"] in vs:
                    vs2 = vs2 or dict(vs)
                    vs2.pop(t0["d"], None)
        return [(vs2 if vs2 is not None else vs, L, cons)]

    @staticmethod
    def _strargs(args):
        out = []
        for i, a in enumerate(args):
            a0 = strip(a)
            while a0 is not None and a0["k"] in ("DefaultArg",) and a0.get("ch"):
                a0 = strip(a0["ch"][0])
            if a0 is not None and a0["k"] == "Str":
                out.append((i, a0.get("s", "")))
        return tuple(out)

    def summary(self, fk, L, depth, member=None, strargs=()):
        """set of (net consumption lower bound capped to [-1,1], resulting look-ahead) of a consumer;
        strargs: ((param index, literal), ...) string-literal arguments of this call site"""
        key = (fk, L, member, tuple(strargs))
        if key in self.memo:
            return self.memo[key]
        if depth >= self.MAXDEPTH:
            return {(0, None)}
        self.memo[key] = {(0, None)}      # recursion guard: assume no progress
        outs = set()
        for f in self.bykey.get(fk, []):
            S = None
            for p in f.params:
                if is_stream_type(f.tyname(p["t"])):
                    S = p["d"]
                    break
            if S is None and member is not None:
                S = member
            if S is None or f.cfg is None:
                outs.add((0, None))
                continue
            vs0 = {}
            for i, lit in strargs:
                if i < len(f.params):
                    vs0[f.params[i]["d"]] = ("str", lit)
            res = self.run_region(f, S, f.cfg.entry, (vs0, L, 0), set(), None, depth + 1)
            for kind, b, (vs, L2, cons) in res:
                if kind == "explosion":
                    outs.add((0, None))
                elif kind == "return":
                    outs.add((max(-1, min(1, cons)), "BAD" if vs.get("$bad") else L2))
        if not outs:
            outs = {(1, None)}      # never returns normally
        self.memo[key] = outs
        return outs

    def alphabet(self, f, body):
        chars = set()

        def scan(fn, nodes):
            for n in nodes:
                for x in walk(n):
                    if x["k"] == "Char" and 32 <= x.get("val", 0) < 127:
                        chars.add(x["val"])
                    if x["k"] == "Call" and (x.get("fn") or "").split("::")[-1] in ("strchr", "__builtin_strchr"):
                        h0 = strip(x["ch"][0]) if x.get("ch") else None
                        if h0 is not None and h0["k"] == "Str":
                            chars.update(ord(c) for c in h0.get("s", "") if 32 <= ord(c) < 127)
        scan(f, [f.nodes[e] for b in body for e in f.cfg.blocks[b]["e"]])
        for b in body:
            for e in f.cfg.blocks[b]["e"]:
                n = f.nodes[e]
                if n["k"] == "Call" and n.get("fk") in self.consumers:
                    for g in self.bykey.get(n["fk"], []):
                        scan(g, [g.body])
        chars.update(ord(c) for c in "Aa0 _")
        return sorted(chars)

    # ---- loop check -----------------------------------------------------------------------------
    def check_loops(self, f):
        """-> list of site dicts for loops that dispatch on the look-ahead character"""
        lc = LoopCheck(self.prog, f, self.consumers)
        sites = []
        for h, body in lc.loops().items():
            cons = lc.consuming_calls(body)
            if not cons:
                continue
            for S in sorted({s for _, s, _ in cons}):
                # does an exit/branch condition of the loop read the look-ahead (peek) ?
                uses_peek = False
                for b in body:
                    for e in f.cfg.blocks[b]["e"]:
                        n = f.nodes[e]
                        for x in walk(n):
                            if x["k"] == "Call" and (x.get("fn") or "").endswith("::peek") and x.get("ch") and stream_of(f, x["ch"][0]) == S:
                                uses_peek = True
                if not uses_peek:
                    continue
                self._exitvars = lc.exit_compared_vars(body)
                res = self.run_region(f, S, h, ({}, None, 0), {h}, body)
                # case split on the look-ahead: every character that the loop or its consumers compare against,
                # plus representatives of the character classes
                alphabet = self.alphabet(f, body)
                for ch in alphabet:
                    res = res + self.run_region(f, S, h, ({}, ch, 0), {h}, body)
                cand = [r for r in res if r[0] == "stop" and r[2][2] <= 0 and isinstance(r[2][1], int) and "@inc" not in r[2][0]]
                undecided = [r for r in res if r[0] == "stop" and r[2][2] <= 0 and not isinstance(r[2][1], int)]
                expl = [r for r in res if r[0] == "explosion"]
                bad = []
                for r in cand:
                    # confirm: a second iteration starting with that very look-ahead comes back unchanged
                    vs1 = {k: v for k, v in r[2][0].items() if k != "@inc"}
                    res2 = self.run_region(f, S, h, (vs1, r[2][1], 0), {h}, body)
                    if any(q[0] == "stop" and q[2][2] <= 0 and q[2][1] == r[2][1] and "@inc" not in q[2][0] for q in res2):
                        bad.append(r)
                head = f.cfg.blocks[h]
                tk = head.get("tk")
                line = f.nodes[tk]["l"] if tk is not None and tk >= 0 and tk in f.nodes else None
                sites.append({"head": h, "line": line, "stream": S, "ok": (False if bad else (None if expl else True)),
                              "undecided_paths": len(undecided),
                              "witness": [{"lookahead": (chr(r[2][1]) if isinstance(r[2][1], int) and 32 <= r[2][1] < 127 else r[2][1]),
                                           "net_consumed": r[2][2]} for r in bad[:3]],
                              "witness_all": [{"lookahead": (chr(r[2][1]) if isinstance(r[2][1], int) and 32 <= r[2][1] < 127 else r[2][1]),
                                               "net_consumed": r[2][2]} for r in bad]})
        return sites
