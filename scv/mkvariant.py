#!/usr/bin/env python3
"""Helper: create scv/variants/<PID>/<name>.diff from textual replacements.
usage (python): mk(pid, name, [(file, old, new), ...], [expect...])"""
import os
import subprocess
import sys

HERE = os.path.dirname(os.path.abspath(__file__))


def mk(pid, name, edits, expect):
    assert subprocess.run("git -C /repo status --porcelain --untracked-files=no", shell=True,
                          capture_output=True, text=True).stdout.strip() == "", "/repo dirty"
    try:
        for f, old, new in edits:
            p = os.path.join("/repo", f)
            s = open(p).read()
            assert s.count(old) >= 1, (f, old[:60], s.count(old))
            s = s.replace(old, new, 1)
            open(p, "w").write(s)
        d = subprocess.run("git -C /repo diff", shell=True, capture_output=True, text=True).stdout
        os.makedirs(os.path.join(HERE, "variants", pid), exist_ok=True)
        with open(os.path.join(HERE, "variants", pid, name + ".diff"), "w") as fh:
            for e in expect:
                fh.write("# expect: %s\n" % e)
            fh.write(d)
    finally:
        subprocess.run("git -C /repo checkout -- .", shell=True)
