#!/usr/bin/env python3
"""Both-ways validation of the rules on one-instance-broken variants of /repo.

  python3 scv/variants.py [PID ...]      run the variants of the given (default: all) properties
Each variant is a unified diff under scv/variants/<PID>/<name>.diff (or seeded/<id>/patch.diff
listed in a meta.json) whose first lines may carry
  # expect: <substring of a failing obligation key or rule>
The diff is applied to /repo's working tree with `git apply`, the quick check is run
(expected: exit 1 and a VIOLATION whose report contains the expected substring; exit 2 = the
variant does not compile or an anchor vanished), and the tree is restored with
`git checkout -- .` straight afterwards.  Nothing is ever committed to /repo.
"""
import glob
import json
import os
import subprocess
import sys

HERE = os.path.dirname(os.path.abspath(__file__))
VERIF = os.path.dirname(HERE)
REPO = "/repo"


def sh(cmd, **kw):
    return subprocess.run(cmd, shell=True, capture_output=True, text=True, **kw)


def clean():
    r = sh("git -C %s status --porcelain --untracked-files=no" % REPO)
    return r.stdout.strip() == ""


def run_variant(pid, path, expect):
    if not clean():
        print("!! /repo has uncommitted changes; refusing to apply variants")
        sys.exit(2)
    r = sh("git -C %s apply --whitespace=nowarn %s" % (REPO, path))
    if r.returncode != 0:
        return "APPLY-FAILED", r.stderr.strip()[-200:]
    try:
        c = sh("python3 %s/run.py %s --tier quick" % (HERE, pid), cwd=VERIF)
        out = c.stdout
        if "SILENT" in expect:
            # behaviour-preserving edit: the check must stay silent
            return ("CAUGHT" if c.returncode == 0 else "FALSE-ALARM(exit %d)" % c.returncode,
                    "silent on a behaviour-preserving edit" if c.returncode == 0 else out[-300:])
        if c.returncode == 2:
            return "BROKEN(exit 2)", "\n".join(l for l in out.splitlines() if "BROKEN" in l)[:400]
        if c.returncode == 0:
            return "MISSED", ""
        lines = [l for l in out.splitlines() if l.startswith("  ") and "rule " in l]
        # every expected substring must occur in some reported line (not necessarily the same one)
        if expect and all(any(e in l for l in lines) for e in expect):
            hit = [l for l in lines if any(e in l for e in expect)]
        else:
            hit = [] if expect else lines
        if hit:
            return "CAUGHT", hit[0].strip()[:300]
        return "CAUGHT-OTHER", (lines[0].strip()[:300] if lines else out[-300:])
    finally:
        sh("git -C %s checkout -- ." % REPO)
        # remove files the patch added
        sh("git -C %s clean -fdq -- src include cmake test" % REPO)


def variants_of(pid):
    out = []
    for p in sorted(glob.glob(os.path.join(HERE, "variants", pid, "*.diff"))):
        expect = []
        for l in open(p):
            if l.startswith("# expect:"):
                expect.append(l.split(":", 1)[1].strip())
        out.append((os.path.basename(p), p, expect))
    for meta in sorted(glob.glob(os.path.join(VERIF, "seeded", "*", "meta.json"))):
        m = json.load(open(meta))
        if m.get("property") == pid:
            out.append(("seeded/" + os.path.basename(os.path.dirname(meta)),
                        os.path.join(os.path.dirname(meta), "patch.diff"), m.get("expect", [])))
    return out


def main():
    pids = [a.upper() for a in sys.argv[1:]] or sorted(
        {os.path.basename(d) for d in glob.glob(os.path.join(HERE, "variants", "C*"))} |
        {json.load(open(m)).get("property") for m in glob.glob(os.path.join(VERIF, "seeded", "*", "meta.json"))})
    bad = 0
    for pid in pids:
        # the unchanged tree must be silent
        c = sh("python3 %s/run.py %s --tier quick" % (HERE, pid), cwd=VERIF)
        print("%s unchanged tree: exit %d" % (pid, c.returncode))
        if c.returncode != 0:
            bad += 1
        for name, path, expect in variants_of(pid):
            st, detail = run_variant(pid, path, expect)
            print("  %-34s %-14s %s" % (name, st, detail))
            if st not in ("CAUGHT",):
                bad += 1
    return 1 if bad else 0


if __name__ == "__main__":
    sys.exit(main())
