"""Obligations, known findings, verdict lines, evidence files."""
import json
import os
import sys
import time

VERIF = os.path.dirname(os.path.dirname(os.path.abspath(__file__)))
KNOWN = os.path.join(VERIF, "known_findings.json")


class Ob:
    """One obligation = (rule, site).  ok True => discharged."""
    __slots__ = ("rule", "key", "where", "ok", "msg", "facts", "assume")

    def __init__(self, rule, key, where, ok, msg, facts=None, assume=None):
        self.rule = rule
        self.key = key          # stable site key: no line numbers
        self.where = where      # file:line for humans
        self.ok = bool(ok)
        self.msg = msg
        self.facts = facts or {}
        self.assume = assume

    def as_dict(self):
        d = {"rule": self.rule, "key": self.key, "where": self.where, "ok": self.ok, "msg": self.msg}
        if self.facts:
            d["facts"] = self.facts
        if self.assume:
            d["assumption"] = self.assume
        return d


class Floor:
    def __init__(self, rule, what, got, minimum):
        self.rule, self.what, self.got, self.minimum = rule, what, got, minimum

    @property
    def ok(self):
        return self.got >= self.minimum


class Result:
    def __init__(self, pid):
        self.pid = pid
        self.obs = []
        self.floors = []
        self.broken = []       # analysis-broken reasons
        self.info = {}         # free-form evidence facts (units, functions visited ...)
        self.notes = []

    def add(self, *a, **kw):
        o = Ob(*a, **kw)
        self.obs.append(o)
        return o

    def floor(self, rule, what, got, minimum):
        f = Floor(rule, what, got, minimum)
        self.floors.append(f)
        if not f.ok:
            self.broken.append("floor not met: rule %s %s: %d < %d" % (rule, what, got, minimum))

    def broke(self, why):
        self.broken.append(why)


def load_known(pid):
    if not os.path.exists(KNOWN):
        return []
    data = json.load(open(KNOWN))
    return [e for e in data.get("findings", []) if e.get("property") == pid]


def finish(res, tier, seed, t0, explanation, assumptions, checker_cmd, trusted_base, units_info, quiet=False):
    """Print verdict lines, write evidence, return exit code."""
    pid = res.pid
    known = load_known(pid)
    open_known = {e["key"]: e for e in known if e.get("status") == "open"}
    # de-duplicate obligations by (rule,key): header code seen in several units
    uniq = {}
    for o in res.obs:
        k = (o.rule, o.key)
        if k in uniq:
            # a failing duplicate wins
            if uniq[k].ok and not o.ok:
                uniq[k] = o
            continue
        uniq[k] = o
    obs = list(uniq.values())
    failed = [o for o in obs if not o.ok]
    violations = []
    known_hit = []
    for o in failed:
        e = open_known.get(o.key)
        # an entry may pin the specific failure (msg_contains): a different failure at the same
        # site is still a violation
        if e is not None and (not e.get("msg_contains") or e["msg_contains"] in o.msg):
            known_hit.append((o, e))
        else:
            violations.append(o)
    stale = [e for k, e in open_known.items() if k not in {o.key for o in failed}]

    outdir = os.path.join(VERIF, "out", pid)
    os.makedirs(outdir, exist_ok=True)
    for f in os.listdir(outdir):
        if f.endswith(".json"):
            os.unlink(os.path.join(outdir, f))

    code = 0
    if res.broken:
        code = 2
        for b in res.broken:
            print("ANALYSIS-BROKEN property=%s %s" % (pid, b))
    for o, e in known_hit:
        print("KNOWN-FINDING: property=%s %s [%s] at %s" % (pid, e.get("what", o.msg), o.key, o.where))
    for e in stale:
        print("note: known finding no longer re-derived (repaired or code moved): %s" % e["key"])
    for i, o in enumerate(violations):
        path = os.path.join(outdir, "v%03d.json" % i)
        with open(path, "w") as fh:
            json.dump(dict(o.as_dict(), property=pid), fh, indent=1)
        print("  %s: rule %s: %s [%s]" % (o.where, o.rule, o.msg, o.key))
        print("VIOLATION property=%s replay=%s" % (pid, path))
    if violations:
        code = 1        # a derived violation is reported even if another rule could not run

    # per-rule statistics
    rules = {}
    for o in obs:
        r = rules.setdefault(o.rule, {"obligations": 0, "discharged": 0, "under_assumption": 0, "failed": 0})
        r["obligations"] += 1
        if o.ok:
            r["discharged"] += 1
            if o.assume:
                r["under_assumption"] += 1
        else:
            r["failed"] += 1
    for f in res.floors:
        rules.setdefault(f.rule, {}).setdefault("floors", []).append(
            {"what": f.what, "got": f.got, "min": f.minimum, "ok": f.ok})
    samples = []
    seenr = {}
    for o in obs:
        c = seenr.get(o.rule, 0)
        if c < 3:
            samples.append(o.as_dict())
            seenr[o.rule] = c + 1
    for o, e in known_hit[:5]:
        samples.append(dict(o.as_dict(), known_finding=e.get("what")))
    for o in violations[:5]:
        samples.append(o.as_dict())

    ev = {
        "property_id": pid,
        "tier": tier,
        "seed": seed,
        "level": "other",
        "coverage": {
            "explanation": explanation,
            "obligations": len(obs),
            "discharged": len([o for o in obs if o.ok]),
            "discharged_under_assumption": len([o for o in obs if o.ok and o.assume]),
            "known_findings_hit": len(known_hit),
            "undischarged_new": len(violations),
            "checker_cmd": checker_cmd,
            "trusted_base": trusted_base,
            "rules": rules,
            "samples": samples,
            "units": units_info,
            "exhaustive": True,
            "analysis_broken": res.broken,
        },
        "assumptions": assumptions,
        "wall_s": round(time.time() - t0, 2),
        "violations": len(violations),
    }
    ev["coverage"].update(res.info)
    os.makedirs(os.path.join(VERIF, "evidence"), exist_ok=True)
    with open(os.path.join(VERIF, "evidence", pid + ".json"), "w") as fh:
        json.dump(ev, fh, indent=1)
    if not quiet:
        print("%s tier=%s: %d obligations, %d discharged, %d known findings, %d new violations, %d rules, %.1fs -> exit %d"
              % (pid, tier, len(obs), ev["coverage"]["discharged"], len(known_hit), len(violations),
                 len(rules), ev["wall_s"], code))
        for rname, r in sorted(rules.items()):
            print("   rule %-28s obligations=%-4d discharged=%-4d failed=%d" %
                  (rname, r.get("obligations", 0), r.get("discharged", 0), r.get("failed", 0)))
    return code
