"""'A file with one schema is printed in one pass' — decided by three-valued exploration of the generators' dependency
checkers (multpass.c / multpass_python.c) under the single-schema hypothesis.

Hypothesis S : every object lies in the schema being printed      (inSchema(.,.) and sameSchema(.,.) are true)
Invariant  I : no type or entity carries the mark CANTPROCESS       (marks of objects are NOTKNOWN, CANPROCESS or PROCESSED)

Claim checked: under S and I no statement that assigns CANTPROCESS to an object, or UNPROCESSED to the schema, is reachable
from checkTypes()/checkEnts().  I is then inductive (nothing ever breaks it), the schema keeps the mark PROCESSED, and
print_schemas_separate() takes the `suffix 0` branch: one set of files / one module per schema.

Conditions are evaluated over small value sets of `x->search_id`, refined along the path (`if (e->search_id != NOTKNOWN)
return e->search_id >= CANPROCESS;` is `true` on that path); calls of the checkers' own helpers are evaluated through
their return-value sets; everything else is unknown (both branches explored)."""
from ir import walk, strip, expr_str
from engines import flatten_switch

MARKS = {"NOTKNOWN": 1, "UNPROCESSED": 2, "CANTPROCESS": 3, "CANPROCESS": 4, "PROCESSED": 5}
OBJ_STATES = frozenset({1, 4, 5})
TRUE_FNS = {"inSchema", "sameSchema"}


class SinglePass:
    def __init__(self, prog, file_suffix):
        self.prog = prog
        self.suffix = file_suffix
        self.hits = []          # (fn, node, text)
        self.visited = set()
        self.retmemo = {}
        self.stack = []

    def fn(self, name):
        c = [f for f in self.prog.fn(name) if f.file.endswith(self.suffix)]
        return c[0] if len(c) == 1 else None

    # ---- values
    def mark_path(self, n):
        n = strip(n)
        if n is not None and n["k"] == "Member" and n["n"] == "search_id":
            return expr_str(n)
        return None

    def const(self, n):
        n0 = n
        n = strip(n)
        for x in (n0, n):
            if x is not None and isinstance(x.get("val"), int) and not any(y["k"] in ("Call", "Assign") for y in walk(x)):
                return x["val"]
        return None

    def values(self, n, facts):
        """possible integer values of n, or None"""
        c = self.const(n)
        if c is not None:
            return {c}
        p = self.mark_path(n)
        if p is not None:
            if p in facts:
                return set(facts[p])
            if p.split("->")[0].strip() in ("schema", "s"):
                return None           # the schema's own mark is not an object mark
            return set(OBJ_STATES)
        return None

    def truth(self, fn, n, facts):
        n = strip(n)
        if n is None:
            return None
        k = n["k"]
        ch = n.get("ch") or []
        if k == "Paren":
            return self.truth(fn, ch[0], facts)
        c = self.const(n)
        if c is not None:
            return c != 0
        if k == "Unary" and n.get("op") == "!":
            t = self.truth(fn, ch[0], facts)
            return None if t is None else not t
        if k == "Binary":
            op = n.get("op")
            if op == "&&":
                a = self.truth(fn, ch[0], facts)
                if a is False:
                    return False
                f2 = dict(facts)
                self.refine(fn, ch[0], True, f2)
                b = self.truth(fn, ch[1], f2)
                if b is False:
                    return False
                return True if (a is True and b is True) else None
            if op == "||":
                a = self.truth(fn, ch[0], facts)
                if a is True:
                    return True
                f2 = dict(facts)
                self.refine(fn, ch[0], False, f2)
                b = self.truth(fn, ch[1], f2)
                if b is True:
                    return True
                return False if (a is False and b is False) else None
            if op in ("==", "!=", "<", ">", "<=", ">="):
                va, vb = self.values(ch[0], facts), self.values(ch[1], facts)
                if va and vb:
                    rs = set()
                    for x in va:
                        for y in vb:
                            rs.add({"==": x == y, "!=": x != y, "<": x < y, ">": x > y, "<=": x <= y, ">=": x >= y}[op])
                    if len(rs) == 1:
                        return next(iter(rs))
                return None
            return None
        if k == "Assign" and n.get("op") == "=":
            return self.truth(fn, ch[1], facts)
        if k == "Call":
            nm = n.get("fn") or ""
            if nm in TRUE_FNS:
                return True
            g = self.fn(nm)
            if g is not None:
                rs = self.returns(g)
                if rs == {True}:
                    return True
                if rs == {False}:
                    return False
            return None
        return None

    def refine(self, fn, cond, branch, facts):
        """narrow the value sets of mark paths knowing that cond evaluated to `branch`"""
        c = strip(cond)
        if c is None:
            return
        if c["k"] == "Paren":
            return self.refine(fn, c["ch"][0], branch, facts)
        if c["k"] == "Unary" and c.get("op") == "!":
            return self.refine(fn, c["ch"][0], not branch, facts)
        if c["k"] == "Binary" and c.get("op") == "&&" and branch:
            self.refine(fn, c["ch"][0], True, facts)
            self.refine(fn, c["ch"][1], True, facts)
            return
        if c["k"] == "Binary" and c.get("op") == "||" and not branch:
            self.refine(fn, c["ch"][0], False, facts)
            self.refine(fn, c["ch"][1], False, facts)
            return
        if c["k"] == "Binary" and c.get("op") in ("==", "!=", "<", ">", "<=", ">="):
            for a, b, flip in ((c["ch"][0], c["ch"][1], False), (c["ch"][1], c["ch"][0], True)):
                p = self.mark_path(a)
                v = self.const(b)
                if p is None or v is None:
                    continue
                cur = self.values(a, facts)
                if cur is None:
                    continue
                op = c["op"]
                if flip:
                    op = {"<": ">", ">": "<", "<=": ">=", ">=": "<="}.get(op, op)
                keep = {x for x in cur if {"==": x == v, "!=": x != v, "<": x < v, ">": x > v, "<=": x <= v, ">=": x >= v}[op] == branch}
                facts[p] = frozenset(keep)

    # ---- return values of helpers
    def returns(self, g):
        key = g.key
        if key in self.retmemo:
            return self.retmemo[key]
        self.retmemo[key] = {True, False}        # recursion: unknown
        rets = set()
        self.walk(g, g.body, {}, rets, record=False)
        out = set()
        for r in rets:
            out |= ({True, False} if r is None else {r})
        self.retmemo[key] = out or {True, False}
        return self.retmemo[key]

    # ---- statements
    def walk(self, fn, n, facts, rets=None, record=True):
        """-> (flows, facts after) ; flows subset of {'next','break','continue','return'}"""
        if n is None:
            return {"next"}
        k = n["k"]
        ch = n.get("ch") or []
        if k == "Compound":
            flows = set()
            for c in ch:
                f = self.walk(fn, c, facts, rets, record)
                flows |= f - {"next"}
                if "next" not in f:
                    return flows
            flows.add("next")
            return flows
        if k == "DeclStmt":
            for v in ch:
                if v is not None and v.get("ch"):
                    self.expr(fn, v["ch"][0], facts, record)
            return {"next"}
        if k == "If":
            self.expr(fn, ch[0], facts, record)
            t = self.truth(fn, ch[0], facts)
            flows = set()
            outs = []
            if t is not False:
                f1 = dict(facts)
                self.refine(fn, ch[0], True, f1)
                flows |= self.walk(fn, ch[1], f1, rets, record)
                outs.append(f1)
            if t is not True:
                f2 = dict(facts)
                self.refine(fn, ch[0], False, f2)
                if len(ch) > 2 and ch[2] is not None:
                    flows |= self.walk(fn, ch[2], f2, rets, record)
                else:
                    flows.add("next")
                outs.append(f2)
            # join: keep facts on which all continuing branches agree
            facts.clear()
            if outs:
                for p in set.intersection(*[set(o) for o in outs]):
                    vals = [o[p] for o in outs]
                    facts[p] = frozenset(set().union(*vals))
            return flows
        if k in ("While", "For", "Do"):
            body = ch[-1] if k != "Do" else ch[0]
            facts.clear()
            for c in ch:
                if c is not body and c is not None:
                    if c["k"] == "DeclStmt":
                        self.walk(fn, c, facts, rets, record)
                    else:
                        self.expr(fn, c, facts, record)
            f = self.walk(fn, body, dict(), rets, record)
            facts.clear()
            return {"next"} | ({"return"} if "return" in f else set())
        if k == "Switch":
            facts.clear()
            flows = {"next"}
            for labs, stmt in flatten_switch(n):
                f = self.walk(fn, stmt, dict(), rets, record)
                if "return" in f:
                    flows.add("return")
            return flows
        if k == "Return":
            if ch and ch[0] is not None:
                self.expr(fn, ch[0], facts, record)
                if rets is not None:
                    rets.add(self.truth(fn, ch[0], facts))
            return {"return"}
        if k == "Break":
            return {"break"}
        if k == "Continue":
            return {"continue"}
        if k in ("Label", "Case", "Default"):
            flows = {"next"}
            for c in ch:
                if c is not None and c["k"] not in ("Int", "Cast", "Ref", "Char"):
                    flows = self.walk(fn, c, facts, rets, record)
            return flows
        self.expr(fn, n, facts, record)
        return {"next"}

    def expr(self, fn, e, facts, record):
        """assignments of marks and calls inside an expression (short-circuit aware)"""
        if e is None:
            return
        k = e["k"]
        ch = e.get("ch") or []
        if k == "Binary" and e.get("op") in ("&&", "||"):
            self.expr(fn, ch[0], facts, record)
            t = self.truth(fn, ch[0], facts)
            if (e["op"] == "&&" and t is False) or (e["op"] == "||" and t is True):
                return
            f2 = dict(facts)
            self.refine(fn, ch[0], e["op"] == "&&", f2)
            self.expr(fn, ch[1], f2, record)
            return
        for c in ch:
            self.expr(fn, c, facts, record)
        if k == "Assign" and e.get("op") == "=" and len(ch) == 2:
            p = self.mark_path(ch[0])
            v = self.const(ch[1])
            if p is not None:
                if v is not None:
                    facts[p] = frozenset({v})
                    if record and v in (MARKS["CANTPROCESS"], MARKS["UNPROCESSED"]):
                        self.hits.append((fn, e, "%s = %s" % (p, "CANTPROCESS" if v == 3 else "UNPROCESSED"), tuple(f.name for f in self.stack)))
                else:
                    facts.pop(p, None)
        if k == "Call":
            g = self.fn(e.get("fn") or "")
            if g is not None and record and g.key not in self.visited and (e.get("fn") or "") not in TRUE_FNS:
                self.visited.add(g.key)
                self.stack.append(g)
                try:
                    self.walk(g, g.body, {}, None, record)
                finally:
                    self.stack.pop()

    def run(self, entries=("checkTypes", "checkEnts")):
        n = 0
        for name in entries:
            f = self.fn(name)
            if f is None:
                return None
            n += 1
            self.visited.add(f.key)
            self.stack = [f]
            self.walk(f, f.body, {}, None, True)
        return self.hits


def check(prog, res, rule, file_suffix, program):
    sp = SinglePass(prog, file_suffix)
    hits = sp.run()
    if hits is None:
        res.broke("anchor vanished: checkTypes/checkEnts in %s" % file_suffix)
        return
    f0 = sp.fn("checkTypes")
    res.info.setdefault("single_pass", {})[program] = {"functions_explored": len(sp.visited), "helper_return_sets": {
        k: sorted(map(str, v)) for k, v in sp.retmemo.items()}}
    seen = set()
    for (fn, node, text, stack) in hits:
        key = "%s|%s|%s|%s" % (rule.split(".")[0], fn.relfile(), fn.name, text)
        if key in seen:
            continue
        seen.add(key)
        res.add(rule, key, fn.where(node), False,
                "with every object in the schema being printed, %s can still execute `%s` (reached via %s): a file with a single schema "
                "is split over several passes, so %s writes <schema>_1, <schema>_2 ... instead of one set of files" %
                (fn.name, text, " <- ".join(reversed(stack[-3:])), program))
    res.add(rule, "%s|%s|single-schema-single-pass" % (rule.split(".")[0], f0.relfile()), f0.where(), not hits,
            "under the single-schema hypothesis no deferral (CANTPROCESS / schema UNPROCESSED) is reachable from checkTypes()/checkEnts() "
            "(%d functions explored): one pass, no file-name suffix" % len(sp.visited) if not hits else
            "%d deferral statement(s) reachable for a single-schema file" % len(hits))
