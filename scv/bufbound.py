"""E2 `bufbound` — every write into fixed-size storage is bounded (DESIGN §3/E2).

For one function: enumerate write sites whose destination is (an alias into) an object of constant
array type and decide each with interval analysis (index stores, pointer bumps) or with the maximal
expansion of the library writer.  String operands are classified by provenance:
literal < fixed array < schema identifier (assumption L) < unknown / input-derived (unbounded).
"""
import re

from absint import Intervals, INF, TOP, add_iv, param_types, State
from engines import parse_format, call_args
from ir import walk, strip, expr_str, access_path, array_len

STR_WRITERS = {"strcpy", "strcat", "sprintf", "vsprintf", "strncpy", "strncat", "snprintf", "vsnprintf",
               "memcpy", "memmove", "memset", "fgets", "fread", "getcwd", "gets", "stpcpy",
               "__builtin_strcpy", "__builtin_strcat", "__builtin_memcpy", "__builtin_memset", "__builtin_strncpy",
               "__builtin___strcpy_chk", "__builtin___sprintf_chk"}
ISTREAM_BUF = {"get", "getline", "read", "readsome"}

INT_WIDTH = {"int": 11, "unsigned int": 10, "long": 20, "unsigned long": 20, "short": 6, "unsigned short": 5,
             "char": 4, "unsigned char": 3, "long long": 20, "unsigned long long": 20, "bool": 1, "_Bool": 1}


def elem_size(ty):
    t = re.sub(r"\[\d+\]$", "", ty).strip()
    if t.endswith("*"):
        return 8
    return {"char": 1, "unsigned char": 1, "signed char": 1, "short": 2, "unsigned short": 2, "int": 4, "unsigned int": 4,
            "long": 8, "unsigned long": 8, "double": 8, "float": 4, "bool": 1}.get(t, None)


# functions whose result is a transformed copy of one argument, of the same length
PASS_THROUGH = {"StrToUpper": 0, "StrToLower": 0, "StrToConstant": 0, "PrettyTmpName": 0, "PrettyNewName": 0}


class FnBuf:
    def __init__(self, prog, fn, ident_fns, input_fns=None, const_globals=None, summaries=None, path_fns=None):
        self.summaries = summaries or {}
        self.path_fns = path_fns or set()
        self.prog = prog
        self.fn = fn
        self.ident_fns = ident_fns
        self.input_fns = input_fns or set()
        self.const_globals = const_globals or {}
        self.ptr_alias = self._find_aliases()
        self.iv = Intervals(fn, tracked=None, extra_eval=self._extra_eval)
        # also track pointer aliases as offsets
        self._orig_is_tracked = self.iv.is_tracked
        self.iv.is_tracked = self._is_tracked
        self.iv._var_tracked = self._var_tracked
        self.iv.solve()
        self.sites = []

    # ---- pointer aliases into fixed arrays ---------------------------------------
    def _array_of(self, n):
        """(path, N, elemtype) if n denotes an object of constant array type"""
        n = strip(n)
        if n is None:
            return None
        if n["k"] in ("Ref", "Member"):
            ty = self.fn.ty(n)
            N = array_len(ty)
            if N is not None and "[" in ty and ty.count("[") == 1:
                return (access_path(n), N, ty)
            if N is not None and ty.count("[") == 2:
                return None
        if n["k"] == "Subscript":
            # row of a 2-D array: a[i] of type T[N]
            ty = self.fn.ty(n)
            N = array_len(ty)
            if N is not None and ty.count("[") == 1:
                return (access_path(n) or expr_str(n), N, ty)
        return None

    def _find_aliases(self):
        """local pointers all of whose definitions are `p = ARRAY [+ k]` / p++ / p += k  -> {d: (path, N, ty)}"""
        fn = self.fn
        defs = {}
        bad = set()
        for n in fn.walk():
            if n["k"] == "Var" and fn.tyname(n.get("t")).endswith("*"):
                if n.get("ch") and n["ch"][0] is not None:
                    defs.setdefault(n["d"], []).append(n["ch"][0])
                else:
                    defs.setdefault(n["d"], [])
            elif n["k"] == "Assign":
                lhs = strip(n["ch"][0])
                if lhs["k"] == "Ref" and lhs.get("dk") == "local" and fn.ty(lhs).endswith("*"):
                    defs.setdefault(lhs["d"], []).append(n["ch"][1])
            elif n["k"] == "Unary" and n["op"] == "&":
                t = strip(n["ch"][0])
                if t["k"] == "Ref":
                    bad.add(t["d"])
        out = {}
        for d, rhss in defs.items():
            if d in bad or not rhss:
                continue
            base = None
            ok = True
            for r in rhss:
                b = self._base_of(r, d)
                if b is None:
                    ok = False
                    break
                if b == "self":
                    continue
                if base is None:
                    base = b
                elif base[0] != b[0]:
                    ok = False
                    break
            if ok and base is not None:
                out[d] = base
        return out

    def _base_of(self, r, d):
        r = strip(r)
        if r is None:
            return None
        a = self._array_of(r)
        if a:
            return a
        if r["k"] == "Unary" and r["op"] == "&":
            s = strip(r["ch"][0])
            if s["k"] == "Subscript":
                return self._array_of(s["ch"][0])
        if r["k"] == "Binary" and r["op"] in ("+", "-"):
            l = strip(r["ch"][0])
            if l["k"] == "Ref" and l.get("d") == d:
                return "self"
            return self._base_of(l, d)
        if r["k"] == "Ref" and r.get("d") == d:
            return "self"
        return None

    def _is_tracked(self, ref):
        if ref["k"] == "Ref" and ref.get("d") in self.ptr_alias:
            return True
        return self._orig_is_tracked(ref)

    def _var_tracked(self, v):
        if v["d"] in self.ptr_alias:
            return True
        t = self.fn.tyname(v.get("t"))
        return t in ("int", "unsigned int", "long", "unsigned long", "short", "unsigned short", "size_t", "char",
                     "unsigned char", "long long", "unsigned long long")

    def _extra_eval(self, n, st, iv):
        """pointer-valued expressions evaluate to their offset into the aliased array"""
        if n["k"] in ("Ref", "Member"):
            if self._array_of(n):
                return (0, 0)
        if n["k"] == "Unary" and n["op"] == "&":
            s = strip(n["ch"][0])
            if s["k"] == "Subscript" and self._array_of(s["ch"][0]):
                return iv.eval(s["ch"][1], st)
        if n["k"] == "Call" and n.get("fn") in ("strlen", "__builtin_strlen"):
            a = n["ch"][0] if n.get("ch") else None
            cb = self._content_bound(a, n)
            if cb is not None:
                return (0, cb)
            ml = self.maxlen(a, st)
            if ml[0] != INF:
                return (0, ml[0])
            return (0, INF)
        if n["k"] == "Ref" and n.get("dk") == "global" and n["n"] in self.const_globals:
            v = self.const_globals[n["n"]]
            return (v, v)
        if n["k"] == "SizeOf" and "val" in n:
            return (n["val"], n["val"])
        return None

    def _content_bound(self, a, at):
        """strlen(buf) where buf is a fixed array whose only earlier writer in this function is one
        sprintf/strcpy with a finite expansion: that expansion bounds the content"""
        arr = self._array_of(a) if a is not None else None
        if not arr or getattr(self, "_in_cb", False):
            return None
        self._in_cb = True
        try:
            writers = []
            for n in self.fn.walk():
                if n["k"] != "Call" or n is at:
                    continue
                short = (n.get("fn") or "").split("::")[-1].replace("__builtin_", "")
                if short in ("strcpy", "strcat", "sprintf", "strncpy", "strncat", "snprintf", "memcpy", "vsprintf"):
                    args = call_args(n)
                    b = self._array_of(args[0]) if args else None
                    if b and b[0] == arr[0]:
                        writers.append((short, n, args))
            if len(writers) != 1:
                return None
            short, n, args = writers[0]
            if not self.fn.cfg.dominates(self.fn.cfg.locate(n), self.fn.cfg.locate(at)):
                return None
            st = self.iv.state_at(n) if hasattr(self, "iv") and self.iv.before else State()
            if short == "sprintf":
                f = strip(args[1])
                if f["k"] != "Str":
                    return None
                tot, opens, _ = self.fmt_expansion(f.get("s", ""), args[2:], st)
                return tot if (tot != INF and not opens) else None
            if short == "strcpy":
                ml = self.maxlen(args[1], st)
                return ml[0] if ml[0] != INF else None
            return None
        finally:
            self._in_cb = False

    # ---- destinations -------------------------------------------------------------
    def dest(self, n, st):
        """-> (path, N_elems, type, offset_interval) or None if not a fixed-size object"""
        n = strip(n)
        if n is None:
            return None
        a = self._array_of(n)
        if a:
            return (a[0], a[1], a[2], (0, 0))
        if n["k"] == "Ref" and n.get("d") in self.ptr_alias:
            a = self.ptr_alias[n["d"]]
            return (a[0], a[1], a[2], st.get_iv(n["d"]) if st is not None else TOP)
        if n["k"] == "Unary" and n["op"] == "&":
            s = strip(n["ch"][0])
            if s["k"] == "Subscript":
                b = self.dest(s["ch"][0], st)
                if b:
                    return (b[0], b[1], b[2], add_iv(b[3], self.iv.eval(s["ch"][1], st or State())))
        if n["k"] == "Binary" and n["op"] in ("+", "-"):
            b = self.dest(n["ch"][0], st)
            if b:
                o = self.iv.eval(n["ch"][1], st or State())
                if n["op"] == "-":
                    o = (-o[1], -o[0])
                return (b[0], b[1], b[2], add_iv(b[3], o))
        if n["k"] == "Unary" and n["op"] in ("post++", "post--"):
            return self.dest(n["ch"][0], st)
        if n["k"] == "Unary" and n["op"] in ("pre++", "pre--"):
            b = self.dest(n["ch"][0], st)
            if b:
                d = 1 if "++" in n["op"] else -1
                return (b[0], b[1], b[2], add_iv(b[3], (d, d)))
        return None

    # ---- string length provenance ---------------------------------------------------
    def maxlen(self, n, st=None, depth=0):
        """-> (bound or INF, cls, text)   cls in literal|array|ident|number|unknown|param|input"""
        n0 = n
        n = strip(n)
        if n is None or depth > 6:
            return (INF, "unknown", "?")
        k = n["k"]
        if k == "Str":
            return (len(n.get("s", "")), "literal", expr_str(n)[:30])
        a = self._array_of(n)
        if a and "char" in a[2]:
            return (a[1] - 1, "array", "%s[%d]" % (a[0], a[1]))
        if k == "Cond":
            x, y = self.maxlen(n["ch"][1], st, depth + 1), self.maxlen(n["ch"][2], st, depth + 1)
            return x if x[0] >= y[0] else y
        if k == "Call":
            fnm = (n.get("fn") or "")
            short = fnm.split("::")[-1]
            if short in ("c_str", "data") and n.get("member"):
                obj = n["ch"][0]
                r = self.maxlen_string_obj(obj, st, depth + 1)
                return r
            sb = self._static_return_bound(n)
            if short in PASS_THROUGH and len(n.get("ch") or []) > PASS_THROUGH[short]:
                r = self.maxlen(call_args(n)[PASS_THROUGH[short]], st, depth + 1)
                if sb is not None and sb < r[0]:
                    return (sb, "array", "%s() returns a static array" % short)
                return r
            if sb is not None:
                return (sb, "array", "%s() returns a static array" % short)
            if fnm in self.ident_fns or short in self.ident_fns:
                return (INF, "ident", expr_str(n)[:40])
            if fnm in self.input_fns or short in self.input_fns:
                return (INF, "input", expr_str(n)[:40])
            if fnm in self.path_fns or short in self.path_fns:
                return (4096, "path", expr_str(n)[:40])
            if short in ("strerror",):
                return (80, "literal", "strerror()")
            return (INF, "unknown", expr_str(n)[:40])
        if k == "Ref":
            if n.get("dk") == "param":
                if (self.fn.name, n["n"]) in getattr(self, "param_ident", ()):
                    return (INF, "ident", "parameter %s" % n["n"])
                if getattr(self, "param_is_ident", False):
                    return (INF, "ident", "parameter %s" % n["n"])
                return (INF, "param", n["n"])
            if n.get("dk") in ("local",):
                if n.get("d") in self.ptr_alias:
                    a = self.ptr_alias[n["d"]]
                    return (a[1] - 1, "array", "%s[%d]" % (a[0], a[1]))
                defs = self._defs_of(n["d"])
                if defs and len(defs) <= 3:
                    best = (0, "literal", "")
                    for dnode in defs:
                        r = self.maxlen(dnode, st, depth + 1)
                        if r[0] >= best[0]:
                            best = r
                    return best
            if n.get("dk") == "global":
                g = self.prog.global_init(n["n"])
                if g and g.get("const"):
                    init = strip(g["init"][0])
                    if init and init["k"] == "Str":
                        return (len(init.get("s", "")), "literal", n["n"])
            return (INF, "unknown", expr_str(n)[:40])
        if k == "Member":
            # symbol.name and friends: schema identifiers
            if n["n"] in self.ident_fns:
                return (INF, "ident", expr_str(n)[:40])
            return (INF, "unknown", expr_str(n)[:40])
        if k == "Binary" and n["op"] == "+":
            # pointer + offset: not longer than the base
            return self.maxlen(n["ch"][0], st, depth + 1)
        return (INF, "unknown", expr_str(n)[:40])

    def _static_return_bound(self, call):
        """callee (first-party) returns, on every path, a static/global char array of size N -> N-1"""
        fk = call.get("fk")
        if not fk:
            return None
        defs = [f for (k, _), f in self.prog.functions.items() if k == fk]
        if not defs:
            return None
        best = None
        for f in defs:
            rets = [r for r in f.walk() if r["k"] == "Return" and r.get("ch") and r["ch"][0] is not None]
            if not rets:
                return None
            for r in rets:
                v = strip(r["ch"][0])
                if v is None or v["k"] not in ("Ref", "Member"):
                    return None
                from ir import array_len as _al
                N = _al(f.ty(v))
                if N is None or "char" not in f.ty(v):
                    return None
                best = max(best or 0, N - 1)
        return best

    def maxlen_string_obj(self, obj, st, depth):
        o = strip(obj)
        if o is None:
            return (INF, "unknown", "?")
        if o["k"] == "Ref" and (self.fn.name, o["n"]) in getattr(self, "path_params", ()):
            return (4096, "path", o["n"])
        if o["k"] == "Call":
            fnm = (o.get("fn") or "")
            short = fnm.split("::")[-1]
            if fnm in self.path_fns or short in self.path_fns:
                return (4096, "path", expr_str(o)[:40])
            if fnm in self.ident_fns or short in self.ident_fns:
                return (INF, "ident", expr_str(o)[:40])
        if o["k"] == "Ref" and o.get("dk") == "local":
            # local std::string: all assignments literal?
            best = (0, "literal", "")
            found = False
            for n in self.fn.walk():
                rhs = None
                if n["k"] == "Var" and n.get("d") == o["d"]:
                    found = True
                    if n.get("ch") and n["ch"][0] is not None:
                        c = strip(n["ch"][0])
                        if c["k"] == "Construct":
                            if not c.get("ch"):
                                continue
                            rhs = c["ch"][0]
                        else:
                            rhs = c
                if n["k"] == "Call" and n.get("opcall") in ("=", "+=") and len(n["ch"]) == 2:
                    l = strip(n["ch"][0])
                    if l["k"] == "Ref" and l.get("d") == o["d"]:
                        if n["opcall"] == "+=":
                            return (INF, "unknown", "%s is appended to" % o["n"])
                        rhs = n["ch"][1]
                if n["k"] == "Call" and n.get("member") and n.get("ch"):
                    ob = strip(n["ch"][0])
                    if ob is not None and ob["k"] == "Ref" and ob.get("d") == o["d"] and \
                            (n.get("fn") or "").split("::")[-1] in ("append", "push_back", "insert", "assign", "operator+="):
                        return (INF, "unknown", "%s is built at run time" % o["n"])
                # passed by non-const reference: filled by callee
                if n["k"] == "Call" and n.get("fk"):
                    pts = param_types(n["fk"])
                    for a, t in zip(call_args(n), pts):
                        s = strip(a)
                        if s is not None and s["k"] == "Ref" and s.get("d") == o["d"] and t.endswith("&") and not t.startswith("const "):
                            return (INF, "input", "%s is filled by %s" % (o["n"], n.get("fn")))
                if rhs is not None:
                    r = self.maxlen(rhs, st, depth + 1)
                    if r[0] >= best[0]:
                        best = r
            if found:
                return best
        return (INF, "unknown", expr_str(o)[:40])

    def _defs_of(self, d):
        out = []
        for n in self.fn.walk():
            if n["k"] == "Var" and n.get("d") == d and n.get("ch") and n["ch"][0] is not None:
                out.append(n["ch"][0])
            elif n["k"] == "Assign":
                lhs = strip(n["ch"][0])
                if lhs["k"] == "Ref" and lhs.get("d") == d:
                    out.append(n["ch"][1])
        return out

    # ---- format expansion ---------------------------------------------------------------
    def fmt_expansion(self, fmt, args, st):
        """-> (fixed_len, [(cls, text)], problems)  fixed_len may be INF"""
        convs = parse_format(fmt)
        if convs is None:
            return (INF, [], ["malformed format"])
        lit = len(re.sub(r"%[-+ #0]*(\*|\d+)?(\.(\*|\d+))?(hh|h|ll|l|L|z|j|t|q)?[diouxXeEfFgGaAcspn]", "", fmt).replace("%%", "%"))
        total = lit
        opens = []
        ai = 0
        star_val = None
        for c in convs:
            if ai >= len(args):
                return (INF, opens, ["format consumes more arguments than passed"])
            a = args[ai]
            ai += 1
            if c["conv"] == "*":
                iv = self.iv.eval(a, st or State())
                star_val = iv[1]
                continue
            width = 0
            if c.get("width") == "*":
                width = star_val if star_val is not None else INF
                star_val = None
            elif c.get("width"):
                width = int(c["width"])
            prec = None
            if c.get("prec") == "*":
                prec = star_val if star_val is not None else INF
                star_val = None
            elif c.get("prec"):
                prec = int(c["prec"])
            cv = c["conv"]
            if cv == "s":
                ml = self.maxlen(a, st)
                n = ml[0]
                if prec is not None and prec != INF:
                    n = min(n, prec)
                if n == INF:
                    opens.append((ml[1], ml[2]))
                    n = 0
                total += max(n, width)
            elif cv in "dioxXu":
                t = re.sub(r"\bconst\b", "", self.fn.ty(strip(a))).strip()
                w = INT_WIDTH.get(t, 20)
                iv = self.iv.eval(a, st or State())
                if iv[0] != -INF and iv[1] != INF:
                    w = max(len(str(int(iv[0]))), len(str(int(iv[1]))))
                total += max(w, width)
            elif cv == "c":
                total += max(1, width)
            elif cv in "eEgGaA":
                p = 6 if prec is None else prec
                total += max(p + 9, width)
            elif cv in "fF":
                p = 6 if prec is None else prec
                total += max(310 + p, width)
            elif cv == "p":
                total += max(18, width)
        return (total, opens, [])

    # ---- site enumeration -----------------------------------------------------------------
    def analyse(self):
        fn = self.fn
        for n in fn.walk():
            k = n["k"]
            if k in ("Assign", "CompoundAssign"):
                self._store(n, n["ch"][0])
            elif k == "Unary" and n["op"] in ("post++", "pre++", "post--", "pre--"):
                t = strip(n["ch"][0])
                if t is not None and (t["k"] == "Subscript" or (t["k"] == "Unary" and t["op"] == "*")):
                    self._store(n, n["ch"][0])
            elif k == "Call":
                self._call(n)
        return self.sites

    def _store(self, stmt, lhs):
        lhs = strip(lhs)
        if lhs is None:
            return
        st = self.iv.state_at(stmt)
        if lhs["k"] == "Subscript":
            b = self.dest(lhs["ch"][0], st)
            if not b:
                self._param_index_store(stmt, lhs)
                return
            if st is None:
                return   # unreachable
            idx = add_iv(b[3], self.iv.eval(lhs["ch"][1], st))
            self._index_site(stmt, b, idx, "store %s" % expr_str(lhs)[:50], lhs)
        elif lhs["k"] == "Unary" and lhs["op"] == "*":
            b = self.dest(lhs["ch"][0], st)
            if not b or st is None:
                return
            self._index_site(stmt, b, b[3], "store %s" % expr_str(lhs)[:50], lhs)

    def _param_index_store(self, stmt, lhs):
        """P[i] = ... with P a char* parameter: part of the function's summary.
        Idiom: the enclosing loop runs while Q[i] (another parameter, same index) is non-zero -> needs strlen(Q)+1."""
        base = strip(lhs["ch"][0])
        if base is None or base["k"] != "Ref" or base.get("dk") != "param":
            return
        if not re.match(r"^(unsigned |signed )?char \*$", self.fn.ty(base)):
            return
        idx = strip(lhs["ch"][1])
        pidx = [i for i, p in enumerate(self.fn.params) if p["d"] == base["d"]][0]
        need = ("unbounded",)
        if idx is not None and idx["k"] == "Ref":
            for a in self.fn.ancestors(stmt):
                if a["k"] in ("While", "For"):
                    cond = a["ch"][0] if a["k"] == "While" else a["ch"][1]
                    for x in walk(cond) if cond is not None else []:
                        if x["k"] == "Subscript":
                            qb, qi = strip(x["ch"][0]), strip(x["ch"][1])
                            if qb["k"] == "Ref" and qb.get("dk") == "param" and qi["k"] == "Ref" and qi.get("d") == idx.get("d"):
                                j = [i for i, p in enumerate(self.fn.params) if p["d"] == qb["d"]][0]
                                need = ("strlen_param", j, 1)
                    break
            else:
                # terminator store after the loop: same index variable
                prev = [s for s in self.sites if s.get("kind") == "summary" and s.get("pidx") == pidx]
                if prev:
                    need = prev[-1]["need"]
        self.sites.append({"node": stmt, "kind": "summary", "buf": base["n"], "cap": None, "ok": True, "cls": "summary",
                           "what": "store %s" % expr_str(lhs)[:40], "detail": "writes through parameter `%s`: %s" % (base["n"], need),
                           "pidx": pidx, "need": need})

    def _scan_source(self, node, lhs):
        """`dst[i] = f(src[i])` inside `while (src[i] ...)` (same index): the store copies the string src"""
        if lhs is None:
            return None
        if lhs["k"] == "Unary" and lhs["op"] == "*":
            idx = strip(lhs["ch"][0])
            while idx is not None and idx["k"] == "Unary":
                idx = strip(idx["ch"][0])
            lhs = {"k": "Subscript", "ch": [idx, idx]}
        elif lhs["k"] != "Subscript":
            return None
        else:
            idx = strip(lhs["ch"][1])
        if idx is None or idx["k"] != "Ref":
            return None
        def scan_of(loop, same_index):
            cond = loop["ch"][0] if loop["k"] == "While" else loop["ch"][1]
            for x in walk(cond) if cond is not None else []:
                if x["k"] == "Subscript":
                    qb, qi = strip(x["ch"][0]), strip(x["ch"][1])
                    if qb is None or self._array_of(qb) and self._array_of(qb)[0] == access_path(strip(lhs["ch"][0])):
                        continue
                    if not same_index or (qi is not None and qi["k"] == "Ref" and qi.get("d") == idx.get("d")):
                        return qb
                if x["k"] == "Unary" and x["op"] == "*":
                    qb = strip(x["ch"][0])
                    if not same_index and qb is not None and qb["k"] in ("Ref", "Unary"):
                        while qb is not None and qb["k"] == "Unary":
                            qb = strip(qb["ch"][0])
                        return qb
            return None
        for a in self.fn.ancestors(node):
            if a["k"] in ("While", "For"):
                return scan_of(a, True) or scan_of(a, False)
        # terminator store after the scan loop(s): the loop that advances the same index variable
        for l in self.fn.walk():
            if l["k"] in ("While", "For"):
                adv = any(x["k"] == "Unary" and "++" in x["op"] and strip(x["ch"][0]).get("d") == idx.get("d") for x in walk(l))
                if adv:
                    q = scan_of(l, True) or scan_of(l, False)
                    if q is not None:
                        return q
        return None

    def _index_site(self, node, b, idx, what, lhs=None):
        path, N, ty, _ = b
        ok = idx[0] >= 0 and idx[1] <= N - 1
        if not ok and idx[0] >= 0 and lhs is not None:
            src = self._scan_source(node, lhs)
            if src is not None:
                ml = self.maxlen(src, None)

                def site(ok2, cls, detail, lstar=None):
                    self.sites.append({"node": node, "kind": "index", "buf": path, "cap": N, "ok": ok2, "cls": cls,
                                       "what": what, "detail": detail, "lstar": lstar})
                base_off = idx[0]
                self._str_site(site, (ml[0] if ml[0] != INF else 0) + base_off, [(ml[1], ml[2])] if ml[0] == INF else [], N,
                               "character-wise copy of %s" % ml[2])
                return
        self.sites.append({"node": node, "kind": "index", "buf": path, "cap": N, "ok": ok, "cls": "ok" if ok else "unbounded",
                           "what": what, "detail": "index in [%s, %s], capacity %d" % (fmt_b(idx[0]), fmt_b(idx[1]), N)})

    def _call(self, c):
        fn = self.fn
        name = c.get("fn") or ""
        short = name.split("::")[-1]
        st = self.iv.state_at(c)
        if st is None:
            return
        args = call_args(c)
        # by-reference element stores:  in.get(buf[i++])
        if c.get("fk"):
            pts = param_types(c["fk"])
            for a, t in zip(args, pts):
                s = strip(a)
                if s is not None and s["k"] == "Subscript" and t.endswith("&") and not t.startswith("const "):
                    b = self.dest(s["ch"][0], st)
                    if b:
                        idx = add_iv(b[3], self.iv.eval(s["ch"][1], st))
                        self._index_site(c, b, idx, "by-reference store %s via %s" % (expr_str(s)[:40], short))
        if short == "operator>>" or c.get("opcall") == ">>":
            if len(c["ch"]) == 2:
                b = self.dest(c["ch"][1], st)
                if b and "char" in b[2]:
                    self.sites.append({"node": c, "kind": "lib", "buf": b[0], "cap": b[1], "ok": False, "cls": "input",
                                       "what": "istream >> char[]", "detail": "unbounded extraction into %s[%d]" % (b[0], b[1])})
            return
        if name.startswith("std::") and short in ISTREAM_BUF and c.get("member") and len(args) >= 2:
            b = self.dest(args[0], st)
            if b:
                n = self.iv.eval(args[1], st)
                avail = b[1] - (b[3][1] if b[3][1] != INF else INF)
                ok = n[1] <= b[1] - max(0, b[3][1]) if b[3][1] != INF else False
                self.sites.append({"node": c, "kind": "lib", "buf": b[0], "cap": b[1], "ok": ok, "cls": "ok" if ok else "unbounded",
                                   "what": "istream::%s" % short, "detail": "count <= %s, capacity %d" % (fmt_b(n[1]), b[1])})
            return
        if c.get("fk") in self.summaries:
            for pidx, need in self.summaries[c["fk"]]:
                if pidx >= len(args):
                    continue
                b = self.dest(args[pidx], st)
                if not b:
                    continue
                path, N, ty, off = b
                room = N - off[1] if off[1] != INF else -INF

                def site2(ok, cls, detail, lstar=None, path=path, N=N):
                    self.sites.append({"node": c, "kind": "lib", "buf": path, "cap": N, "ok": ok, "cls": cls,
                                       "what": "call %s" % short, "detail": detail, "lstar": lstar})
                if need[0] == "const":
                    ok = need[1] <= room
                    site2(ok, "ok" if ok else "overflow", "%s writes %d bytes, room %s" % (short, need[1], fmt_b(room)))
                elif need[0] == "strlen_param" and need[1] < len(args):
                    ml = self.maxlen(args[need[1]], st)
                    self._str_site(site2, ml[0] if ml[0] != INF else 0, [(ml[1], ml[2])] if ml[0] == INF else [], room,
                                   "%s copies %s" % (short, ml[2]))
                elif need[0] == "unbounded" and len(need) > 2 and need[1] in ("ident", "path"):
                    self._str_site(site2, 0, [(need[1], need[2])], room, "%s copies %s" % (short, need[2]))
                else:
                    site2(False, "unbounded", "%s writes an unbounded amount through this argument" % short)
        if short not in STR_WRITERS and name not in STR_WRITERS:
            return
        if not args:
            return
        b = self.dest(args[0], st)
        if not b:
            self._ptr_dest_site(c, short, args, st)
            return
        path, N, ty, off = b
        es = elem_size(ty) or 1
        room = N - (off[1] if off[1] != INF else INF) if off[1] != INF else -INF
        base = short.replace("__builtin_", "").replace("___", "").replace("_chk", "")

        def site(ok, cls, detail, lstar=None):
            self.sites.append({"node": c, "kind": "lib", "buf": path, "cap": N, "ok": ok, "cls": cls, "what": base,
                               "detail": detail, "lstar": lstar})
        if off[0] < 0 or room == -INF:
            site(False, "unbounded", "destination offset in [%s,%s] of %s[%d]" % (fmt_b(off[0]), fmt_b(off[1]), path, N))
            return
        if base in ("strcpy", "stpcpy"):
            ml = self.maxlen(args[1], st)
            self._str_site(site, 0 if ml[0] == INF else ml[0], [(ml[1], ml[2])] if ml[0] == INF else [], room, "copy of %s" % ml[2])
        elif base == "strcat":
            ml = self.maxlen(args[1], st)
            prior = self._prior_content(c, path)
            opens = ([(ml[1], ml[2])] if ml[0] == INF else []) + prior[1]
            fixed = (0 if ml[0] == INF else ml[0]) + prior[0]
            in_loop = any(a["k"] in ("For", "While", "Do") for a in fn.ancestors(c))
            if in_loop:
                site(False, "unbounded", "strcat inside a loop onto %s[%d]" % (path, N))
            else:
                self._str_site(site, fixed, opens, room, "append of %s after up to %d earlier bytes" % (ml[2], prior[0]))
        elif base in ("sprintf", "vsprintf"):
            if base == "vsprintf":
                site(False, "unknown", "vsprintf into %s[%d]: expansion depends on the caller's format" % (path, N))
                return
            fmt = strip(args[1])
            if fmt["k"] != "Str":
                site(False, "unknown", "non-literal format")
                return
            tot, opens, probs = self.fmt_expansion(fmt.get("s", ""), args[2:], st)
            self._str_site(site, tot, opens, room, "expansion of %r" % fmt.get("s", "")[:40])
        elif base == "strncat":
            n = self.iv.eval(args[2], st)
            ml = self.maxlen(args[1], st)
            prior = self._prior_content(c, path)
            if n[1] != INF and (ml[0] == INF or n[1] < ml[0]):
                ml = (n[1], "array", "at most %d bytes of %s" % (n[1], ml[2]))
            opens = ([(ml[1], ml[2])] if ml[0] == INF else []) + prior[1]
            fixed = (0 if ml[0] == INF else ml[0]) + prior[0]
            self._str_site(site, fixed, opens, room, "bounded append of %s after up to %d earlier bytes" % (ml[2], prior[0]))
        elif base in ("strncpy", "snprintf", "vsnprintf", "fgets", "getcwd"):
            n = self.iv.eval(args[2] if base in ("strncpy",) else args[1], st)
            need = n[1]
            ok = need <= room
            site(ok, "ok" if ok else "unbounded", "size argument <= %s, room %s" % (fmt_b(n[1]), fmt_b(room)))
        elif base in ("memcpy", "memmove", "memset"):
            if elem_size(ty) is None:
                return      # aggregate elements: size algebra on sizeof(T) is not a string write
            n = self.iv.eval(args[2], st)
            ok = n[1] <= room * es
            site(ok, "ok" if ok else "unbounded", "byte count <= %s, room %s bytes" % (fmt_b(n[1]), fmt_b(room * es)))
        elif base == "fread":
            a, b2 = self.iv.eval(args[1], st), self.iv.eval(args[2], st)
            tot = a[1] * b2[1] if INF not in (a[1], b2[1]) else INF
            ok = tot <= room * es
            site(ok, "ok" if ok else "unbounded", "size*count <= %s, room %s bytes" % (fmt_b(tot), fmt_b(room * es)))
        elif base == "gets":
            site(False, "input", "gets()")

    def _str_site(self, site, fixed, opens, room, what):
        if fixed == INF:
            site(False, "unbounded", what)
            return
        need = fixed + 1
        if not opens:
            ok = need <= room
            site(ok, "ok" if ok else "overflow", "%s: needs %d bytes, room %s" % (what, need, fmt_b(room)))
            return
        classes = {c for c, _ in opens}
        if classes <= {"ident"}:
            lstar = (room - need) // len(opens) if room != INF else INF
            ok = lstar >= 0
            site(ok, "assume" if ok else "overflow",
                 "%s: fixed part %d bytes + %d schema identifier(s) (%s), room %s => safe for identifiers <= %s" %
                 (what, need, len(opens), ", ".join(t for _, t in opens)[:80], fmt_b(room), fmt_b(lstar)), lstar)
            return
        if getattr(self, "param_is_ident", False) and classes <= {"ident", "unknown", "param", "array", "path"}:
            lstar = (room - need) // len(opens) if room != INF else INF
            ok = lstar >= 0
            site(ok, "assume" if ok else "overflow",
                 "%s: fixed part %d bytes + %d name operand(s) built from schema identifiers (%s), room %s => safe for names <= %s" %
                 (what, need, len(opens), ", ".join(t for _, t in opens)[:80], fmt_b(room), fmt_b(lstar)), lstar)
            return
        worst = "input" if "input" in classes else ("param" if classes <= {"param", "ident"} else "unknown")
        site(False, worst, "%s: operand(s) of unbounded length: %s" % (what, ", ".join("%s(%s)" % (t, c) for c, t in opens)[:120]))

    def _prior_content(self, c, path):
        """upper bound of what earlier writers (same function, flow-insensitive) may have put into the buffer"""
        fixed = 0
        opens = []
        best_cpy = 0
        cfg = self.fn.cfg
        cpos = cfg.locate(c)
        RESET = ("strcpy", "sprintf", "strncpy", "snprintf")
        # latest content-resetting writer of this buffer that dominates c
        last_reset = None
        for n in self.fn.walk():
            if n is c or n["k"] != "Call":
                continue
            short = (n.get("fn") or "").split("::")[-1].replace("__builtin_", "")
            if short in RESET:
                args = call_args(n)
                b = self.dest(args[0], self.iv.state_at(n)) if args else None
                if b and b[0] == path and b[3] == (0, 0) and cfg.locate(n) and cfg.dominates(cfg.locate(n), cpos) and cfg.locate(n) != cpos:
                    if last_reset is None or cfg.dominates(cfg.locate(last_reset), cfg.locate(n)):
                        last_reset = n
        for n in self.fn.walk():
            if n is c or n["k"] != "Call" or n["l"] > c["l"]:
                continue
            npos0 = cfg.locate(n)
            if npos0 is None or cpos is None:
                continue
            if npos0[0] != cpos[0] and cpos[0] not in cfg.reachable_blocks(npos0[0]):
                continue      # this writer cannot be followed by c on any path
            if last_reset is not None and n is not last_reset:
                # only appends between the dominating reset and c matter
                npos = cfg.locate(n)
                if npos is None or not cfg.dominates(cfg.locate(last_reset), npos):
                    continue
                sh = (n.get("fn") or "").split("::")[-1].replace("__builtin_", "")
                if sh in RESET:
                    continue
            short = (n.get("fn") or "").split("::")[-1].replace("__builtin_", "")
            if short not in ("strcpy", "strcat", "sprintf", "strncpy", "strncat", "snprintf"):
                continue
            args = call_args(n)
            b = self.dest(args[0], self.iv.state_at(n)) if args else None
            if not b or b[0] != path:
                continue
            st = self.iv.state_at(n)
            if short in ("strcpy",):
                ml = self.maxlen(args[1], st)
                if ml[0] == INF:
                    opens.append((ml[1], ml[2]))
                else:
                    best_cpy = max(best_cpy, ml[0])
            elif short == "strcat":
                ml = self.maxlen(args[1], st)
                if ml[0] == INF:
                    opens.append((ml[1], ml[2]))
                else:
                    fixed += ml[0]
            elif short == "sprintf":
                f = strip(args[1])
                if f["k"] == "Str":
                    tot, op, _ = self.fmt_expansion(f.get("s", ""), args[2:], st)
                    best_cpy = max(best_cpy, tot if tot != INF else 0)
                    opens.extend(op)
                else:
                    opens.append(("unknown", "format"))
            elif short in ("strncpy", "strncat", "snprintf"):
                nn = self.iv.eval(args[2] if short != "snprintf" else args[1], st)
                if nn[1] == INF:
                    opens.append(("unknown", "size"))
                elif short == "strncat":
                    fixed += nn[1]
                else:
                    best_cpy = max(best_cpy, nn[1])
        return (fixed + best_cpy, opens)

    def _ptr_dest_site(self, c, short, args, st):
        """destination is a pointer that is not an alias into a fixed array: heap idiom or parameter summary.
        Only character-string writers are in scope (typed container growth with mem* is C13's subject)."""
        d = strip(args[0])
        if d is None:
            return
        base = short.replace("__builtin_", "")
        if base in ("memcpy", "memmove", "memset", "fread"):
            dty = self.fn.ty(d)
            if not re.match(r"^(const )?(unsigned |signed )?char \*$", dty):
                return
        info = {"node": c, "kind": "ptr", "buf": expr_str(d)[:40], "cap": None, "what": base, "lstar": None}
        # parameter destination: part of the function's summary
        root = d
        while root is not None and root["k"] in ("Binary", "Unary", "Subscript", "Cast") and root.get("ch"):
            root = strip(root["ch"][0])
        if root is not None and root["k"] == "Ref" and root.get("dk") == "param":
            pidx = [i for i, p in enumerate(self.fn.params) if p["d"] == root["d"]][0]
            need = ("unbounded",)
            if base in ("strcpy",) and len(args) > 1:
                a1 = strip(args[1])
                if a1["k"] == "Ref" and a1.get("dk") == "param":
                    need = ("strlen_param", [i for i, p in enumerate(self.fn.params) if p["d"] == a1["d"]][0], 1)
                else:
                    ml = self.maxlen(args[1], st)
                    need = ("const", ml[0] + 1) if ml[0] != INF else ("unbounded", ml[1], ml[2])
            info.update(ok=True, cls="summary", kind="summary", pidx=pidx, need=need,
                        detail="writes through parameter `%s` (obligation moves to the callers): %s" % (root["n"], need))
            self.sites.append(info)
            return
        # heap block sized from the source in the same function
        if d["k"] in ("Ref", "Member", "Subscript"):
            size = self._alloc_size(d)
            if size is not None:
                ok, detail = self._heap_ok(base, args, size, st)
                info.update(ok=ok, cls="ok" if ok else "unknown", detail=detail)
                self.sites.append(info)
                return
        info.update(ok=False, cls="unknown", detail="destination `%s` is neither a fixed array, a parameter nor a block allocated here" % expr_str(d)[:40])
        self.sites.append(info)

    def _alloc_size(self, ref):
        """size expression node of the malloc/new[] that defines `ref` in this function (single definition)"""
        p = access_path(ref)
        sizes = []
        for n in self.fn.walk():
            rhs = None
            if n["k"] == "Var" and ref["k"] == "Ref" and n.get("d") == ref.get("d") and n.get("ch") and n["ch"][0] is not None:
                rhs = n["ch"][0]
            elif n["k"] == "Assign" and p is not None and access_path(n["ch"][0]) == p:
                rhs = n["ch"][1]
            if rhs is None:
                continue
            r = strip(rhs)
            while r is not None and r["k"] == "Cast":
                r = strip(r["ch"][0])
            if r is None:
                continue
            if r["k"] == "New" and r.get("array"):
                sizes.append(r["ch"][0])
            elif r["k"] == "Call" and r.get("fn") in ("malloc", "sc_malloc", "calloc", "realloc", "sc_calloc", "sc_realloc"):
                sizes.append(r["ch"][-1] if r["fn"] in ("realloc", "sc_realloc") else r["ch"][0])
            elif r["k"] == "Call" and r.get("fn") in ("strdup", "sc_strdup"):
                return None
            elif r.get("val") == 0 or r["k"] == "Null0":
                continue
            else:
                return None
        return sizes[-1] if sizes else None

    def _heap_ok(self, base, args, size, st):
        """size = strlen(src) + k  with the very src that is copied"""
        s = strip(size)
        srcs = {}
        k = 0
        terms = []

        def flat(x, sign=1):
            x = strip(x)
            if x["k"] == "Binary" and x["op"] == "+":
                flat(x["ch"][0], sign)
                flat(x["ch"][1], sign)
            elif x["k"] == "Binary" and x["op"] == "*" and strip(x["ch"][1]).get("val") == 1:
                flat(x["ch"][0], sign)
            else:
                terms.append(x)
        flat(s)
        const = 0
        lens = []
        for t in terms:
            if "val" in t:
                const += t["val"]
            elif t["k"] == "Call" and t.get("fn") in ("strlen", "__builtin_strlen"):
                lens.append(access_path(t["ch"][0]) or expr_str(t["ch"][0]))
            elif t["k"] == "Call" and (t.get("fn") or "").split("::")[-1] in ("length", "size"):
                lens.append("len:" + (access_path(t["ch"][0]) or expr_str(t["ch"][0])))
            else:
                lens.append("?" + expr_str(t)[:30])
        if base in ("strcpy",):
            a1 = strip(args[1])
            while a1 is not None and a1["k"] == "Call" and (a1.get("fn") or "").split("::")[-1] in PASS_THROUGH:
                a1 = strip(call_args(a1)[PASS_THROUGH[(a1.get("fn") or "").split("::")[-1]]])
            args = [args[0], a1] + list(args[2:])
            src = access_path(args[1]) or expr_str(args[1])
            srcs = [src, "len:" + src.replace(".c_str()", "")]
            ok = any(l in srcs for l in lens) and const >= 1
            # x.c_str() copied, sized by x.length()
            sa = strip(args[1])
            if not ok and sa["k"] == "Call" and (sa.get("fn") or "").split("::")[-1] == "c_str":
                o = access_path(sa["ch"][0]) or expr_str(sa["ch"][0])
                ok = ("len:" + o) in lens and const >= 1
            return ok, "block of strlen(src)+%d bytes receives a copy of src" % const if ok else \
                "block of size `%s` receives strcpy of `%s`" % (expr_str(s)[:50], expr_str(args[1])[:40])
        if base in ("strncpy", "memcpy", "memset", "memmove"):
            n = strip(args[2])
            ok = expr_str(n) == expr_str(s) or ("val" in n and "val" in s and n["val"] <= s["val"])
            if not ok:
                # strncpy(dst, src, len) with block len+1
                terms_n = expr_str(n)
                ok = any(terms_n == expr_str(t) for t in terms) and const >= 0
            return ok, "byte count `%s` within block of `%s`" % (expr_str(n)[:30], expr_str(s)[:40])
        if base in ("sprintf", "strcat"):
            return False, "%s into heap block of size `%s`" % (base, expr_str(s)[:40])
        return False, "%s into heap block" % base


def fmt_b(x):
    if x == INF:
        return "+inf"
    if x == -INF:
        return "-inf"
    return str(int(x))
