"""Structural agreement of sibling copies of one function (flow-graph bisimulation).

Several helpers of stepcode exist as two or three hand-maintained copies - one in a code generator, one in the run-time
library - and the product only works when the copies compute the same function (the generator registers a dictionary entry
under the key PrettyTmpName() gives it, the run time looks the key up through its own PrettyTmpName()).  Equality of two
programs is undecidable in general; what is decided here is the sufficient, purely structural condition that today's tree
meets: the two clang CFGs are *bisimilar* when

  * blocks without elements and with one successor are skipped,
  * the statement-level elements of related blocks have the same canonical form: node kinds, operators, literal values,
    callee and member names; locals and parameters are numbered by first occurrence, so renaming a variable is not a
    difference; in a relational test a folded constant >= 64 is written BOUND (the copies size their buffers differently -
    the bounds are the business of the memory-safety rules, not of agreement),
  * successors are related pairwise, true edge with true edge.

A difference is reported with the two source positions and the two canonical forms.  A copy whose flow graph was rewritten
without changing what it computes is also reported - which is what a rule about *agreement of copies* has to do: the claim
that two different-looking copies agree cannot be discharged structurally and needs a reviewer.
"""
from ir import strip


def _canon(f, n, names):
    if n is None:
        return "-"
    k = n["k"]
    if n.get("mo"):
        # the expansion of a function-like macro of the C library (isupper in a C unit) is written as a call of the macro, with the
        # operands that were spelled at the use
        args = []

        def tops(x):
            for c in x.get("ch") or []:
                if c is None:
                    continue
                if c.get("mo"):
                    tops(c)
                else:
                    args.append(c)
        tops(n)
        return "Call:%s(%s)" % (n["mo"], ",".join(_canon(f, a, names) for a in args))
    if k in ("Paren",) and n.get("ch"):
        return _canon(f, n["ch"][0], names)
    if "val" in n and k in ("Int", "Char", "Bool", "Null0", "Cast", "Binary", "Unary", "SizeOf"):
        return "#%s" % (n["val"],)
    if k == "Cast" and n.get("ch"):
        # conversions differ between C and C++ units of the same text (character literals, comparison results)
        return _canon(f, n["ch"][0], names)
    if k == "Ref":
        if n.get("dk") in ("local", "param", "staticlocal"):
            d = n.get("d")
            if d not in names:
                names[d] = "v%d" % (len(names) + 1)
            return names[d]
        return "@" + str(n.get("n") or n.get("d"))
    if k == "Var":
        d = n.get("d")
        if d not in names:
            names[d] = "v%d" % (len(names) + 1)
        return "var %s=%s" % (names[d], ",".join(_canon(f, c, names) for c in (n.get("ch") or [])))
    if k == "Str":
        return "S%r" % (n.get("s"),)
    head = k
    if n.get("op"):
        head += n["op"]
    if k in ("Call", "Construct"):
        head += ":" + (n.get("fn") or "?").rsplit("::", 1)[-1]
    if k == "Member":
        head += ":" + (n.get("q") or n.get("n") or "?").rsplit("::", 1)[-1]
    ch = [_canon(f, c, names) for c in (n.get("ch") or [])]
    if k == "Binary" and n.get("op") in ("<", "<=", ">", ">="):
        for i, c in enumerate(n.get("ch") or []):
            c = strip(c)
            if c is not None and isinstance(c.get("val"), int) and c["val"] >= 64:
                ch[i] = "BOUND"
    if k == "Binary" and n.get("op") in ("==", "!=") and len(ch) == 2:
        ch = sorted(ch)
    return "%s(%s)" % (head, ",".join(ch))


def _sig(f, b, names):
    blk = f.cfg.blocks[b]
    es = set(blk["e"])
    out = []
    for e in blk["e"]:
        nd = f.nodes.get(e)
        if nd is None:
            continue
        p = f.parent.get(e)
        while p is not None and p["i"] not in es:
            p = f.parent.get(p["i"])
        if p is not None:
            continue
        out.append(_canon(f, nd, names))
    return out


def _skip(f, b):
    seen = set()
    while b not in seen:
        seen.add(b)
        blk = f.cfg.blocks[b]
        if blk["e"] or len(blk["s"]) != 1 or blk["s"][0] is None or blk["s"][0] < 0:
            return b
        b = blk["s"][0]
    return b


def bisimilar(fa, fb):
    """None when the flow graphs agree, else (line_a, line_b, form_a, form_b, why)."""
    if fa.cfg is None or fb.cfg is None:
        return (fa.line, fb.line, "", "", "no flow graph")
    na, nb = {}, {}
    for p, q in zip(fa.params, fb.params):
        na[p["d"]] = nb[q["d"]] = "p%d" % (len(na) + 1)
    if len(fa.params) != len(fb.params):
        return (fa.line, fb.line, "", "", "different number of parameters")
    work = [(fa.cfg.entry, fb.cfg.entry)]
    rel = {}
    while work:
        a, b = work.pop()
        a, b = _skip(fa, a), _skip(fb, b)
        if rel.get(a, b) != b:
            return (_line(fa, a), _line(fb, b), "", "", "a block of one copy corresponds to two different blocks of the other")
        if a in rel:
            continue
        rel[a] = b
        sa, sb = _sig(fa, a, na), _sig(fb, b, nb)
        if sa != sb:
            i = 0
            while i < min(len(sa), len(sb)) and sa[i] == sb[i]:
                i += 1
            return (_line(fa, a, i), _line(fb, b, i), sa[i] if i < len(sa) else "<end of block>", sb[i] if i < len(sb) else "<end of block>",
                    "statements differ" if i < len(sa) and i < len(sb) else
                    "one copy starts a new block here (a loop head or a join) where the other runs straight on")
        xa = [s if s is not None and s >= 0 else None for s in fa.cfg.blocks[a]["s"]]
        xb = [s if s is not None and s >= 0 else None for s in fb.cfg.blocks[b]["s"]]
        if len(xa) != len(xb) or [s is None for s in xa] != [s is None for s in xb]:
            return (_line(fa, a), _line(fb, b), "%d successors" % len(xa), "%d successors" % len(xb), "branching differs")
        ta, tb = fa.cfg.blocks[a].get("tkind"), fb.cfg.blocks[b].get("tkind")
        loop = ("WhileStmt", "ForStmt", "DoStmt")
        if (ta in loop) != (tb in loop):
            return (_line(fa, a), _line(fb, b), str(ta), str(tb), "one copy loops where the other tests once")
        for s, t in zip(xa, xb):
            if s is not None:
                work.append((s, t))
    return None


def _line(f, b, i=None):
    blk = f.cfg.blocks[b]
    es = [f.nodes.get(e) for e in blk["e"] if f.nodes.get(e) is not None]
    if not es:
        return f.line
    if i is None:
        return min(n["l"] for n in es)
    tops = []
    ids = set(blk["e"])
    for e in blk["e"]:
        nd = f.nodes.get(e)
        p = f.parent.get(e)
        while p is not None and p["i"] not in ids:
            p = f.parent.get(p["i"])
        if nd is not None and p is None:
            tops.append(nd)
    return tops[i]["l"] if i < len(tops) else es[-1]["l"]
