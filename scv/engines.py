"""Generic rule engines shared by the property modules (see DESIGN.md §3)."""
import re
from collections import deque

from ir import walk, strip, expr_str, access_path, array_len, kids

# ---------------------------------------------------------------------------
# E1 helpers: printf-format parsing and argument classification
# ---------------------------------------------------------------------------
FMT_RE = re.compile(r"%(?P<flags>[-+ #0]*)(?P<width>\*|\d+)?(?:\.(?P<prec>\*|\d+))?(?P<len>hh|h|ll|l|L|z|j|t|q)?(?P<conv>[diouxXeEfFgGaAcspn%])")


def parse_format(fmt):
    """-> list of conversion dicts in argument order ('*' width/prec produce 'star' entries).
    Returns None if the string has a malformed directive."""
    out = []
    i = 0
    while True:
        j = fmt.find("%", i)
        if j < 0:
            break
        m = FMT_RE.match(fmt, j)
        if not m:
            return None
        if m.group("conv") != "%":
            if m.group("width") == "*":
                out.append({"conv": "*", "len": "", "text": m.group(0)})
            if m.group("prec") == "*":
                out.append({"conv": "*", "len": "", "text": m.group(0)})
            out.append({"conv": m.group("conv"), "len": m.group("len") or "", "text": m.group(0),
                        "width": m.group("width"), "prec": m.group("prec"), "flags": m.group("flags")})
        i = m.end()
    return out


def type_class(t):
    """Classify a canonical C type string after default argument promotion."""
    t = t.strip()
    t = re.sub(r"\b(const|volatile|restrict)\b", "", t).strip()
    t = re.sub(r"\s+", " ", t)
    if "__va_list_tag" in t or "__builtin_va_list" in t or t.startswith("va_list"):
        return "va_list"
    if re.match(r"^(unsigned |signed )?char ?(\*|\[\d*\])$", t):
        return "cstr"
    if t.endswith("*") or re.search(r"\[\d*\]$", t) or "(*)" in t:
        return "ptr"
    if t in ("float", "double"):
        return "double"
    if t == "long double":
        return "ldouble"
    if t in ("long", "unsigned long", "long int", "unsigned long int"):
        return "long"
    if t in ("long long", "unsigned long long", "long long int", "unsigned long long int"):
        return "llong"
    if t in ("int", "unsigned int", "unsigned", "short", "unsigned short", "char", "signed char",
             "unsigned char", "_Bool", "bool") or t.startswith("enum "):
        return "int"
    if t.startswith(("struct ", "union ", "class ")):
        return "aggregate"
    return "other:" + t


def conv_accepts(conv, cls):
    c, ln = conv["conv"], conv["len"]
    if c == "*":
        return cls == "int"
    if c == "s":
        return cls == "cstr"
    if c in "dioxXuc":
        if ln in ("", "h", "hh"):
            return cls == "int"
        if ln == "l":
            return cls == "long"
        if ln in ("ll", "q", "j"):
            return cls in ("llong", "long")
        if ln in ("z", "t"):
            return cls == "long"
        return False
    if c in "eEfFgGaA":
        return cls == ("ldouble" if ln == "L" else "double")
    if c == "p":
        return cls in ("ptr", "cstr")
    if c == "n":
        return cls == "ptr"
    return False


def check_format_args(fmt, args, tyfn):
    """Compare a format string with the variadic argument nodes.
    -> list of problem strings (empty = agreement)."""
    convs = parse_format(fmt)
    if convs is None:
        return ["malformed conversion in format %r" % fmt]
    probs = []
    if len(convs) != len(args):
        probs.append("format %r has %d conversion(s) but %d argument(s) are passed" % (fmt, len(convs), len(args)))
    for i, (c, a) in enumerate(zip(convs, args)):
        a0 = a
        cls = type_class(tyfn(a0))
        # an explicit or implicit cast node keeps its own (destination) type
        if cls == "int" and c["conv"] == "s":
            probs.append("conversion %s (argument %d) receives an integer: %s" % (c["text"], i + 1, expr_str(a)))
        elif not conv_accepts(c, cls):
            # null pointer constant for %s is tolerated by no libc: flag it too
            probs.append("conversion %s (argument %d) receives %s of class %s (%s)" %
                         (c["text"], i + 1, expr_str(a), cls, tyfn(a0)))
    return probs


# ---------------------------------------------------------------------------
# table helpers
# ---------------------------------------------------------------------------
def init_rows(g):
    """Semantic-form initialiser of a global array -> list of row nodes (index = position)."""
    init = g["init"][0]
    if init is None:
        return []
    init = strip(init)
    if init["k"] != "InitList":
        return []
    return init["ch"]


def str_of(n):
    """String literal value of a (possibly cast / decayed) node, or None; NULL -> None."""
    n = strip(n)
    if n is None:
        return None
    if n["k"] == "Str":
        return n.get("s")
    return None


def is_null_const(n):
    n0 = n
    n = strip(n)
    if n is None:
        return False
    if n["k"] == "Null0":
        return True
    if n["k"] in ("Int",) and n.get("val") == 0:
        return True
    if n0["k"] == "Cast" and n0.get("ck") == "NullToPointer":
        return True
    if n["k"] == "ImplicitInit":
        return True
    return False


# ---------------------------------------------------------------------------
# CFG helpers
# ---------------------------------------------------------------------------
def enclosing_conditions(fn, node):
    """List of (cond_node, branch) for every If/loop/Cond ancestor of `node`:
    branch is 'T' when node is in the then/body part, 'F' in the else part."""
    out = []
    child = node
    for p in fn.ancestors(node):
        k = p["k"]
        ch = p.get("ch") or []
        if k == "If":
            if len(ch) > 1 and ch[1] is child:
                out.append((ch[0], "T"))
            elif len(ch) > 2 and ch[2] is child:
                out.append((ch[0], "F"))
        elif k == "While":
            if len(ch) > 1 and ch[1] is child:
                out.append((ch[0], "T"))
        elif k == "For":
            if len(ch) > 3 and (ch[3] is child or ch[2] is child) and ch[1] is not None:
                out.append((ch[1], "T"))
        elif k == "Cond":
            if ch[1] is child:
                out.append((ch[0], "T"))
            elif ch[2] is child:
                out.append((ch[0], "F"))
        elif k == "Binary" and p.get("op") == "&&" and ch[1] is child:
            out.append((ch[0], "T"))
        elif k == "Binary" and p.get("op") == "||" and ch[1] is child:
            out.append((ch[0], "F"))
        child = p
    return out


def conjuncts(cond, branch="T"):
    """Atomic facts known when `cond` evaluated to `branch`: list of (node, polarity)."""
    cond = strip(cond)
    if cond is None:
        return []
    if cond["k"] == "Binary" and cond["op"] == "&&" and branch == "T":
        return conjuncts(cond["ch"][0], "T") + conjuncts(cond["ch"][1], "T")
    if cond["k"] == "Binary" and cond["op"] == "||" and branch == "F":
        return conjuncts(cond["ch"][0], "F") + conjuncts(cond["ch"][1], "F")
    if cond["k"] == "Unary" and cond["op"] == "!":
        return conjuncts(cond["ch"][0], "F" if branch == "T" else "T")
    return [(cond, branch == "T")]


def known_facts(fn, node):
    """All atomic (node, polarity) facts that hold when control is at `node`
    by syntactic nesting (structured control only)."""
    out = []
    for c, br in enclosing_conditions(fn, node):
        out.extend(conjuncts(c, br))
    return out


def calls_in(node, names):
    return [n for n in walk(node) if n["k"] == "Call" and (n.get("fn") in names or (n.get("fn") or "").split("::")[-1] in names)]


def stmt_children(n):
    """Direct statement children of a compound-like node."""
    return [c for c in (n.get("ch") or []) if c is not None]


# ---------------------------------------------------------------------------
# tiny partial evaluator over expression trees (three-valued: int / None)
# ---------------------------------------------------------------------------
def peval(n, env):
    """Evaluate expression `n` to an int given env {name-or-access-path: int}; None = unknown."""
    if n is None:
        return None
    k = n["k"]
    if "val" in n and k in ("Int", "Char", "Bool"):
        return n["val"]
    if k in ("Ref", "Member"):
        for key in (n.get("d"), n.get("n"), access_path(n)):
            if key is not None and key in env:
                return env[key]
        if "val" in n:
            return n["val"]
        return None
    if "val" in n and k not in ("Case",):
        return n["val"]
    ch = n.get("ch") or []
    if k == "Cast":
        v = peval(ch[0], env)
        if v is None:
            return None
        if n.get("ck") in ("IntegralToBoolean", "PointerToBoolean"):
            return 1 if v else 0
        return v
    if k in ("DefaultArg", "DefaultInit"):
        return peval(ch[0], env)
    if k == "Unary":
        v = peval(ch[0], env)
        if v is None:
            return None
        op = n["op"]
        if op == "!":
            return 0 if v else 1
        if op == "-":
            return -v
        if op == "+":
            return v
        if op == "~":
            return ~v
        return None
    if k == "Binary":
        op = n["op"]
        a = peval(ch[0], env)
        if op == "&&":
            if a is not None and not a:
                return 0
            b = peval(ch[1], env)
            if b is not None and not b:
                return 0
            return 1 if (a and b) else None if (a is None or b is None) else 0
        if op == "||":
            if a:
                return 1
            b = peval(ch[1], env)
            if b:
                return 1
            return None if (a is None or b is None) else 0
        b = peval(ch[1], env)
        if a is None or b is None:
            return None
        try:
            return {"==": lambda: int(a == b), "!=": lambda: int(a != b), "<": lambda: int(a < b),
                    "<=": lambda: int(a <= b), ">": lambda: int(a > b), ">=": lambda: int(a >= b),
                    "+": lambda: a + b, "-": lambda: a - b, "*": lambda: a * b,
                    "/": lambda: int(a / b) if b else None, "%": lambda: a % b if b else None,
                    "&": lambda: a & b, "|": lambda: a | b, "^": lambda: a ^ b,
                    "<<": lambda: a << b, ">>": lambda: a >> b}[op]()
        except KeyError:
            return None
    if k == "Cond":
        c = peval(ch[0], env)
        if c is None:
            a, b = peval(ch[1], env), peval(ch[2], env)
            return a if a == b else None
        return peval(ch[1] if c else ch[2], env)
    return None
