"""Generic rule engines shared by the property modules (see DESIGN.md §3)."""
import re
from collections import deque

from ir import walk, strip, expr_str, access_path, array_len, kids

# ---------------------------------------------------------------------------
# E1 helpers: printf-format parsing and argument classification
# ---------------------------------------------------------------------------
FMT_RE = re.compile(r"%(?P<flags>[-+ #0]*)(?P<width>\*|\d+)?(?:\.(?P<prec>\*|\d+))?(?P<len>hh|h|ll|l|L|z|j|t|q)?(?P<conv>[diouxXeEfFgGaAcspn%])")


def parse_format(fmt):
    """-> list of conversion dicts in argument order ('*' width/prec produce 'star' entries).
    Returns None if the string has a malformed directive."""
    out = []
    i = 0
    while True:
        j = fmt.find("%", i)
        if j < 0:
            break
        m = FMT_RE.match(fmt, j)
        if not m:
            return None
        if m.group("conv") != "%":
            if m.group("width") == "*":
                out.append({"conv": "*", "len": "", "text": m.group(0)})
            if m.group("prec") == "*":
                out.append({"conv": "*", "len": "", "text": m.group(0)})
            out.append({"conv": m.group("conv"), "len": m.group("len") or "", "text": m.group(0),
                        "width": m.group("width"), "prec": m.group("prec"), "flags": m.group("flags")})
        i = m.end()
    return out


def type_class(t):
    """Classify a canonical C type string after default argument promotion."""
    t = t.strip()
    t = re.sub(r"\b(const|volatile|restrict)\b", "", t).strip()
    t = re.sub(r"\s+", " ", t)
    if "__va_list_tag" in t or "__builtin_va_list" in t or t.startswith("va_list"):
        return "va_list"
    if re.match(r"^(unsigned |signed )?char ?(\*|\[\d*\])$", t):
        return "cstr"
    if t.endswith("*") or re.search(r"\[\d*\]$", t) or "(*)" in t:
        return "ptr"
    if t in ("float", "double"):
        return "double"
    if t == "long double":
        return "ldouble"
    if t in ("long", "unsigned long", "long int", "unsigned long int"):
        return "long"
    if t in ("long long", "unsigned long long", "long long int", "unsigned long long int"):
        return "llong"
    if t in ("int", "unsigned int", "unsigned", "short", "unsigned short", "char", "signed char",
             "unsigned char", "_Bool", "bool") or t.startswith("enum "):
        return "int"
    if t.startswith(("struct ", "union ", "class ")):
        return "aggregate"
    return "other:" + t


def conv_accepts(conv, cls):
    c, ln = conv["conv"], conv["len"]
    if c == "*":
        return cls == "int"
    if c == "s":
        return cls == "cstr"
    if c in "dioxXuc":
        if ln in ("", "h", "hh"):
            return cls == "int"
        if ln == "l":
            return cls == "long"
        if ln in ("ll", "q", "j"):
            return cls in ("llong", "long")
        if ln in ("z", "t"):
            return cls == "long"
        return False
    if c in "eEfFgGaA":
        return cls == ("ldouble" if ln == "L" else "double")
    if c == "p":
        return cls in ("ptr", "cstr")
    if c == "n":
        return cls == "ptr"
    return False


def check_format_args(fmt, args, tyfn):
    """Compare a format string with the variadic argument nodes.
    -> list of problem strings (empty = agreement)."""
    convs = parse_format(fmt)
    if convs is None:
        return ["malformed conversion in format %r" % fmt]
    probs = []
    if len(convs) != len(args):
        probs.append("format %r has %d conversion(s) but %d argument(s) are passed" % (fmt, len(convs), len(args)))
    for i, (c, a) in enumerate(zip(convs, args)):
        a0 = a
        cls = type_class(tyfn(a0))
        # an explicit or implicit cast node keeps its own (destination) type
        if cls == "int" and c["conv"] == "s":
            probs.append("conversion %s (argument %d) receives an integer: %s" % (c["text"], i + 1, expr_str(a)))
        elif not conv_accepts(c, cls):
            # null pointer constant for %s is tolerated by no libc: flag it too
            probs.append("conversion %s (argument %d) receives %s of class %s (%s)" %
                         (c["text"], i + 1, expr_str(a), cls, tyfn(a0)))
    return probs


# ---------------------------------------------------------------------------
# table helpers
# ---------------------------------------------------------------------------
def init_rows(g):
    """Semantic-form initialiser of a global array -> list of row nodes (index = position)."""
    init = g["init"][0]
    if init is None:
        return []
    init = strip(init)
    if init["k"] != "InitList":
        return []
    return init["ch"]


def str_of(n):
    """String literal value of a (possibly cast / decayed) node, or None; NULL -> None."""
    n = strip(n)
    if n is None:
        return None
    if n["k"] == "Str":
        return n.get("s")
    return None


def is_null_const(n):
    n0 = n
    n = strip(n)
    if n is None:
        return False
    if n["k"] == "Null0":
        return True
    if n["k"] in ("Int",) and n.get("val") == 0:
        return True
    if n0["k"] == "Cast" and n0.get("ck") == "NullToPointer":
        return True
    if n["k"] == "ImplicitInit":
        return True
    return False


# ---------------------------------------------------------------------------
# CFG helpers
# ---------------------------------------------------------------------------
def enclosing_conditions(fn, node):
    """List of (cond_node, branch) for every If/loop/Cond ancestor of `node`:
    branch is 'T' when node is in the then/body part, 'F' in the else part."""
    out = []
    child = node
    for p in fn.ancestors(node):
        k = p["k"]
        ch = p.get("ch") or []
        if k == "If":
            if len(ch) > 1 and ch[1] is child:
                out.append((ch[0], "T"))
            elif len(ch) > 2 and ch[2] is child:
                out.append((ch[0], "F"))
        elif k == "While":
            if len(ch) > 1 and ch[1] is child:
                out.append((ch[0], "T"))
        elif k == "For":
            if len(ch) > 3 and (ch[3] is child or ch[2] is child) and ch[1] is not None:
                out.append((ch[1], "T"))
        elif k == "Cond":
            if ch[1] is child:
                out.append((ch[0], "T"))
            elif ch[2] is child:
                out.append((ch[0], "F"))
        elif k == "Binary" and p.get("op") == "&&" and ch[1] is child:
            out.append((ch[0], "T"))
        elif k == "Binary" and p.get("op") == "||" and ch[1] is child:
            out.append((ch[0], "F"))
        child = p
    return out


def conjuncts(cond, branch="T"):
    """Atomic facts known when `cond` evaluated to `branch`: list of (node, polarity)."""
    cond = strip(cond)
    if cond is None:
        return []
    if cond["k"] == "Binary" and cond["op"] == "&&" and branch == "T":
        return conjuncts(cond["ch"][0], "T") + conjuncts(cond["ch"][1], "T")
    if cond["k"] == "Binary" and cond["op"] == "||" and branch == "F":
        return conjuncts(cond["ch"][0], "F") + conjuncts(cond["ch"][1], "F")
    if cond["k"] == "Unary" and cond["op"] == "!":
        return conjuncts(cond["ch"][0], "F" if branch == "T" else "T")
    return [(cond, branch == "T")]


def known_facts(fn, node):
    """All atomic (node, polarity) facts that hold when control is at `node`
    by syntactic nesting (structured control only)."""
    out = []
    for c, br in enclosing_conditions(fn, node):
        out.extend(conjuncts(c, br))
    return out


def calls_in(node, names):
    return [n for n in walk(node) if n["k"] == "Call" and (n.get("fn") in names or (n.get("fn") or "").split("::")[-1] in names)]


def stmt_children(n):
    """Direct statement children of a compound-like node."""
    return [c for c in (n.get("ch") or []) if c is not None]


# ---------------------------------------------------------------------------
# tiny partial evaluator over expression trees (three-valued: int / None)
# ---------------------------------------------------------------------------
def peval(n, env):
    """Evaluate expression `n` to an int given env {name-or-access-path: int}; None = unknown."""
    if n is None:
        return None
    k = n["k"]
    if "val" in n and k in ("Int", "Char", "Bool"):
        return n["val"]
    if k in ("Ref", "Member"):
        for key in (n.get("d"), n.get("n"), access_path(n)):
            if key is not None and key in env:
                return env[key]
        if "val" in n:
            return n["val"]
        return None
    if "val" in n and k not in ("Case",):
        return n["val"]
    ch = n.get("ch") or []
    if k == "Cast":
        v = peval(ch[0], env)
        if v is None:
            return None
        if n.get("ck") in ("IntegralToBoolean", "PointerToBoolean"):
            return 1 if v else 0
        return v
    if k in ("DefaultArg", "DefaultInit"):
        return peval(ch[0], env)
    if k == "Unary":
        v = peval(ch[0], env)
        if v is None:
            return None
        op = n["op"]
        if op == "!":
            return 0 if v else 1
        if op == "-":
            return -v
        if op == "+":
            return v
        if op == "~":
            return ~v
        return None
    if k == "Binary":
        op = n["op"]
        a = peval(ch[0], env)
        if op == "&&":
            if a is not None and not a:
                return 0
            b = peval(ch[1], env)
            if b is not None and not b:
                return 0
            return 1 if (a and b) else None if (a is None or b is None) else 0
        if op == "||":
            if a:
                return 1
            b = peval(ch[1], env)
            if b:
                return 1
            return None if (a is None or b is None) else 0
        b = peval(ch[1], env)
        if a is None or b is None:
            return None
        try:
            return {"==": lambda: int(a == b), "!=": lambda: int(a != b), "<": lambda: int(a < b),
                    "<=": lambda: int(a <= b), ">": lambda: int(a > b), ">=": lambda: int(a >= b),
                    "+": lambda: a + b, "-": lambda: a - b, "*": lambda: a * b,
                    "/": lambda: int(a / b) if b else None, "%": lambda: a % b if b else None,
                    "&": lambda: a & b, "|": lambda: a | b, "^": lambda: a ^ b,
                    "<<": lambda: a << b, ">>": lambda: a >> b}[op]()
        except KeyError:
            return None
    if k == "Cond":
        c = peval(ch[0], env)
        if c is None:
            a, b = peval(ch[1], env), peval(ch[2], env)
            return a if a == b else None
        return peval(ch[1] if c else ch[2], env)
    return None


# ---------------------------------------------------------------------------
# switch flattening and a small structured interpreter (E5 decision tables)
# ---------------------------------------------------------------------------
def flatten_switch(sw):
    """Switch node -> list of (labels, stmt); labels: list of int values or 'default';
    stmt is the statement that follows the label(s) in source order."""
    body = sw["ch"][1]
    items = []
    stmts = body["ch"] if body is not None and body["k"] == "Compound" else [body]
    for s in stmts:
        if s is None:
            continue
        labels = []
        cur = s
        while cur is not None and cur["k"] in ("Case", "Default"):
            if cur["k"] == "Case":
                labels.append(cur.get("val"))
                cur = cur["ch"][1] if len(cur["ch"]) > 1 else None
            else:
                labels.append("default")
                cur = cur["ch"][0] if cur["ch"] else None
        items.append((labels, cur))
    return items


def switch_labels(sw):
    out = []
    for labels, _ in flatten_switch(sw):
        out.extend(labels)
    return out


class Path:
    """One explored path of the structured interpreter."""
    def __init__(self):
        self.effects = []      # expression/return nodes in execution order
        self.decisions = []    # (cond node, value)
        self.returned = None   # Return node or None
        self.broke = False

    def clone(self):
        p = Path()
        p.effects = list(self.effects)
        p.decisions = list(self.decisions)
        p.returned = self.returned
        p.broke = self.broke
        return p


def sinterp(stmts, evalc, switch_val=None, max_paths=4096):
    """Execute a list of statement nodes on every path.
    evalc(cond_node, path) -> True/False/None (None: explore both);
    switch_val(cond_node, path) -> int or None (None: explore every arm).
    Returns the list of Paths (each ends by return, break out of the list, or fall off)."""
    def run(seq, paths):
        for s in seq:
            live = [p for p in paths if p.returned is None and not p.broke]
            done = [p for p in paths if not (p.returned is None and not p.broke)]
            if not live:
                return paths
            paths = done + step(s, live)
            if len(paths) > max_paths:
                raise RuntimeError("path explosion in sinterp")
        return paths

    def step(s, live):
        if s is None:
            return live
        k = s["k"]
        if k == "Compound":
            return run(s["ch"], live)
        if k == "If":
            out = []
            for p in live:
                v = evalc(s["ch"][0], p)
                for val in ([v] if v is not None else [True, False]):
                    q = p.clone() if v is None else p
                    q.decisions.append((s["ch"][0], val))
                    q.effects.append(s["ch"][0])
                    br = s["ch"][1] if val else (s["ch"][2] if len(s["ch"]) > 2 else None)
                    out.extend(step(br, [q]) if br is not None else [q])
            return out
        if k == "Switch":
            out = []
            items = flatten_switch(s)
            for p in live:
                v = switch_val(s["ch"][0], p) if switch_val else None
                if v is None:
                    starts = [i for i, (labs, _) in enumerate(items) if labs]
                    if not any("default" in labs for labs, _ in items):
                        starts.append(len(items))
                else:
                    starts = [i for i, (labs, _) in enumerate(items) if v in labs]
                    if not starts:
                        starts = [i for i, (labs, _) in enumerate(items) if "default" in labs]
                    if not starts:
                        starts = [len(items)]
                for st in starts[:1] if v is not None else starts:
                    q = p.clone() if (v is None and len(starts) > 1) else p
                    labs = items[st][0] if st < len(items) else ["<no arm>"]
                    q.decisions.append((s["ch"][0], tuple(labs)))
                    seq = [stmt for _, stmt in items[st:]]
                    res = run(seq, [q])
                    for r in res:
                        r.broke = False    # break leaves the switch only
                    out.extend(res)
            return out
        if k == "Return":
            for p in live:
                p.effects.append(s)
                p.returned = s
            return live
        if k == "Break":
            for p in live:
                p.broke = True
            return live
        if k in ("While", "For", "Do", "RangeFor"):
            for p in live:
                p.effects.append(s)     # loops are opaque effects
            return live
        for p in live:
            p.effects.append(s)
        return live

    return run(stmts, [Path()])


# ---------------------------------------------------------------------------
# E8 parameter threading
# ---------------------------------------------------------------------------
def call_args(call):
    """Actual argument nodes of a call (without the implicit object)."""
    ch = call.get("ch") or []
    if call.get("member") and not call.get("opcall"):
        return ch[1:]
    return ch


def threading(prog, res, rule, fam_re, member_sources, entry_keys, reach_required=True, why="", exempt=None, no_constant_alternative=False):
    """E8: in every function that has a parameter of the family (or is a method of a class with a
    corresponding member) and calls a function that accepts the family, the argument must be derived
    from the caller's own parameter/member - not a literal and not a defaulted omission."""
    import re as _re
    fam = _re.compile(fam_re)
    accept = {}      # callee key -> index
    for r in prog.records.values():
        for m in r["methods"]:
            for i, p in enumerate(m["params"]):
                if fam.search(p["n"] or ""):
                    accept.setdefault(m["key"], i)
    for f in prog.all_functions():
        for i, p in enumerate(f.params):
            if fam.search(p["n"] or ""):
                accept.setdefault(f.key, i)
    reach = prog.reachable_from(entry_keys) if reach_required else None
    nsites = 0
    counters = {}
    for f in prog.all_functions():
        if f.component in ("test", "selftest_skip"):
            continue
        own = None
        if f.key in accept and accept[f.key] < len(f.params):
            own = f.params[accept[f.key]]["d"]
        cls_src = [m for c, m in member_sources.items() if f.cls == c]
        if own is None and not cls_src:
            continue
        if reach is not None and f.key not in reach:
            continue
        if exempt and f.name in exempt:
            if own is None:
                res.add(rule, "%s|%s|%s|exempt" % (rule, f.relfile(), f.name), f.where(), True,
                        "exempt: " + exempt[f.name], assume=exempt[f.name])
                continue
        # locals derived from the own parameter / member (one level)
        derived = set()

        def mentions_source(n):
            for x in walk(n):
                if x["k"] == "Ref" and (x.get("d") == own or x.get("d") in derived):
                    return True
                if x["k"] == "Member" and any(x["n"] in ms for ms in cls_src):
                    return True
                if x["k"] == "Call" and any((x.get("fn") or "").split("::")[-1] in ms for ms in cls_src):
                    return True
            return False
        for n in f.walk():
            if n["k"] == "Var" and n.get("ch") and n["ch"] and n["ch"][0] is not None and mentions_source(n["ch"][0]):
                derived.add(n["d"])
            if n["k"] == "Assign":
                lhs = strip(n["ch"][0])
                if lhs["k"] == "Ref" and lhs.get("dk") == "local" and mentions_source(n["ch"][1]):
                    derived.add(lhs["d"])
        # a derived local that can also hold a constant (`x = cond ? own : 0`, `x = 0; if( c ) x = own;`) passes the value on only
        # sometimes
        def const_alternative(n):
            for x in walk(n):
                if x["k"] == "Cond" and len(x.get("ch") or []) == 3:
                    for arm in x["ch"][1:]:
                        a0 = strip(arm)
                        while a0 is not None and a0["k"] == "Cast" and a0.get("ch") and "val" not in a0:
                            a0 = strip(a0["ch"][0])
                        if a0 is not None and "val" in a0 and not mentions_source(arm):
                            return True
            return False
        weak = set()
        if no_constant_alternative:
            for n in f.walk():
                d = rhs = None
                if n["k"] == "Var" and n.get("d") in derived:
                    d, rhs = n["d"], (n["ch"][0] if n.get("ch") else None)
                elif n["k"] == "Assign" and strip(n["ch"][0])["k"] == "Ref" and strip(n["ch"][0]).get("d") in derived:
                    d, rhs = strip(n["ch"][0])["d"], n["ch"][1]
                if d is None:
                    continue
                if rhs is None:
                    continue
                if not mentions_source(rhs) or const_alternative(rhs):
                    weak.add(d)
        for call in f.walk():
            if call["k"] not in ("Call", "Construct"):
                continue
            fk = call.get("fk")
            if fk not in accept:
                continue
            idx = accept[fk]
            args = call_args(call)
            nsites += 1
            base = "%s|%s|%s|->%s" % (rule, f.relfile(), f.name, (call.get("fn") or "?"))
            c = counters.get(base, 0)
            counters[base] = c + 1
            key = base if c == 0 else "%s#%d" % (base, c)
            if idx >= len(args):
                res.add(rule, key, f.where(call), False,
                        "call of %s omits the %s argument (callee default is used)" % (call.get("fn"), why))
                continue
            a = args[idx]
            if a["k"] == "DefaultArg":
                res.add(rule, key, f.where(call), False,
                        "%s calls %s without the %s argument: the callee's default (%s) replaces the caller's value" %
                        (f.name, call.get("fn"), why, expr_str(a)))
                continue
            ok = mentions_source(a)
            sometimes = ok and no_constant_alternative and (const_alternative(a) or any(x["k"] == "Ref" and x.get("d") in weak for x in walk(a)))
            res.add(rule, key, f.where(call), ok and not sometimes,
                    "%s argument is `%s`" % (why, expr_str(a)) if ok and not sometimes else
                    "%s argument of %s is `%s`, which holds the caller's own %s only under a condition and a constant otherwise: the callee "
                    "reads the nested values without it" % (why, call.get("fn"), expr_str(a), why) if sometimes else
                    "%s argument of %s is `%s`, not derived from the caller's own %s" % (why, call.get("fn"), expr_str(a), why))
    return nsites


# ---------------------------------------------------------------------------
# E7(c) per-iteration state: a flag tested inside a loop to decide a diagnostic must be
# (re)assigned inside that loop on every path to the test
# ---------------------------------------------------------------------------
LOOPS = ("For", "While", "Do", "RangeFor")


def inside(fn, node, anc):
    if node is anc:
        return True
    for a in fn.ancestors(node):
        if a is anc:
            return True
    return False


def iteration_flags(fn, is_action, rule, res, counters=None):
    """For every `if` whose condition reads a local scalar V and whose arms contain an action
    (is_action(node) true), and every enclosing loop L in which V is also assigned:
    some assignment to V located inside L must dominate the test.  Returns number of sites."""
    cfg = fn.cfg
    if cfg is None:
        return 0
    n_sites = 0
    assigns = {}
    for n in fn.walk():
        if n["k"] in ("Assign", "CompoundAssign"):
            lhs = strip(n["ch"][0])
            if lhs["k"] == "Ref" and lhs.get("dk") == "local":
                assigns.setdefault(lhs["d"], []).append(n)
        elif n["k"] == "Unary" and ("++" in n["op"] or "--" in n["op"]):
            lhs = strip(n["ch"][0])
            if lhs["k"] == "Ref" and lhs.get("dk") == "local":
                assigns.setdefault(lhs["d"], []).append(n)
        elif n["k"] == "Var" and n.get("ch") and n["ch"] and n["ch"][0] is not None:
            assigns.setdefault(n["d"], []).append(n)
    for t in fn.walk():
        if t["k"] != "If":
            continue
        arms = [a for a in t["ch"][1:] if a is not None]
        if not any(is_action(x) for a in arms for x in walk(a)):
            continue
        cond = t["ch"][0]
        vars_ = {}
        for x in walk(cond):
            if x["k"] == "Ref" and x.get("dk") == "local":
                ty = fn.ty(x)
                if ty in ("int", "bool", "_Bool", "unsigned int", "char", "short") :
                    vars_[x["d"]] = x
        if not vars_:
            continue
        loops = [a for a in fn.ancestors(t) if a["k"] in LOOPS]
        if not loops:
            continue
        tpos = cfg.locate(cond)
        for d, ref in vars_.items():
            asg = assigns.get(d, [])
            for L in loops:
                inL = [a for a in asg if inside(fn, a, L)]
                if not inL:
                    continue      # V is loop-invariant in L: nothing carries over
                # loop counters / induction variables assigned in the loop header are not flags
                hdr = [c for c in (L.get("ch") or [])[:3] if c is not None] if L["k"] == "For" else []
                if any(inside(fn, a, h) for a in inL for h in hdr):
                    continue
                n_sites += 1
                dom = [a for a in inL if cfg.locate(a) is not None and cfg.dominates(cfg.locate(a), tpos)
                       and not inside(fn, a, t)]
                base = "%s|%s|%s|flag(%s)" % (rule, fn.relfile(), fn.name, d.split(":")[-1])
                if counters is not None:
                    c = counters.get(base, 0)
                    counters[base] = c + 1
                    if c:
                        base = "%s#%d" % (base, c)
                res.add(rule, base, fn.where(t), bool(dom),
                        "`%s` is re-assigned in each iteration before it decides the diagnostic" % ref["n"] if dom else
                        "`%s` decides a diagnostic inside a loop (line %s) that also modifies it, but no assignment inside "
                        "that loop dominates the test: its value carries over from an earlier iteration" % (ref["n"], L["l"]))
                break     # innermost modifying loop only
    return n_sites
