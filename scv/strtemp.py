"""String-template abstract interpreter (engine E12).

Computes, without running anything, the *shape* of the strings a program builds: every value is a template, a
sequence of literal text and named holes (`{UPPER(SCHEMA.name)}`, `{TYPEget_ctype(T)}`, …).  It follows the C and
C++ string idioms used by the generator and the scanner (sprintf/snprintf into arrays, pointer bumps to the tail of a
buffer, std::string append/resize/length, `<<` chains on streams, helper functions returning structs of pointers to
shared buffers), forks at branches it cannot decide, joins equal states, summarises a loop body as a repetition
`('rep', alternatives)` of what one iteration appends, inlines callees that can reach a sink, and records

  * open events : (site, template of the file name) for every call that creates a file,
  * chain events: what each `<<` chain inserts into which stream.

Everything the interpreter does not understand yields an *unknown* value, never a guess; an unknown reaching a file
name is reported by the rule as analysis-broken, not as a pass.
"""
import re
from ir import walk, strip, expr_str, kids
from engines import FMT_RE, flatten_switch

UNK = ("U",)


def T(*parts):
    out = []
    for p in parts:
        if isinstance(p, tuple) and p and p[0] == "T":
            for q in p[1]:
                _push(out, q)
        else:
            _push(out, p)
    return ("T", tuple(out))


def _push(out, q):
    if q == "":
        return
    if isinstance(q, str) and out and isinstance(out[-1], str):
        out[-1] = out[-1] + q
    else:
        out.append(q)


def A(text):
    return ("a", text)


def is_T(v):
    return isinstance(v, tuple) and v and v[0] == "T"


def render(v):
    if not is_T(v):
        return "<?>" if v is None or v == UNK else str(v)
    s = ""
    for p in v[1]:
        if isinstance(p, str):
            s += p
        elif p[0] == "a":
            s += "{" + p[1] + "}"
        elif p[0] == "m":
            s += ""
        elif p[0] == "rep":
            s += "(" + "|".join(sorted(render(("T", a)) for a in p[1])) + ")*"
        else:
            s += "<?>"
    return s


def has_unknown(v):
    if v is None or v == UNK:
        return True
    if is_T(v):
        for p in v[1]:
            if isinstance(p, tuple) and p[0] == "U":
                return True
            if isinstance(p, tuple) and p[0] == "rep":
                if any(has_unknown(("T", a)) for a in p[1]):
                    return True
    return False


def cut_tail(v, k):
    """Remove the last k characters of a template; they must be literal."""
    if not is_T(v):
        return None
    parts = list(v[1])
    while k > 0:
        if not parts or not isinstance(parts[-1], str):
            return None
        take = min(k, len(parts[-1]))
        parts[-1] = parts[-1][:-take]
        k -= take
        if parts[-1] == "":
            parts.pop()
    return ("T", tuple(parts))


class State:
    __slots__ = ("env",)

    def __init__(self, env=None):
        self.env = dict(env) if env else {}

    def copy(self):
        return State(self.env)

    def key(self):
        return repr(sorted(self.env.items(), key=lambda kv: kv[0]))


def dedupe(states):
    seen = {}
    for s in states:
        seen.setdefault(s.key(), s)
    return list(seen.values())


UPPER_FNS = {"toupper", "ToUpper", "__builtin_toupper"}
STRING_CLS = "std::basic_string<char>::"
OPEN_SINKS = {"fopen": 0, "std::basic_ofstream<char>::open": 0, "std::basic_fstream<char>::open": 0}
FORMATTERS = {"sprintf": (0, 1), "snprintf": (0, 2), "__builtin___sprintf_chk": (0, 3), "__builtin___snprintf_chk": (0, 4)}


class Interp:
    def __init__(self, prog, producers=(), opaque=None, max_depth=12, prefer_file=None):
        self.prog = prog
        self.producers = set(producers)
        self.opaque = opaque or {}      # function name -> callable(argvals, argnodes) -> value
        self.max_depth = max_depth
        self.opens = []                 # (fn, node, template value, call stack names)
        self.chains = []                # (fn, node, stream key, [operand values])
        self.notes = []
        self._memo = {}
        self._stack = []
        self._reach = None
        self.loop_events = 0
        self.finals = {}
        self._sites = []

    # ------------------------------------------------------------------ call graph helpers
    def reaches_sink(self, f):
        if self._reach is None:
            callees, callers = self.prog.callgraph()
            seeds = set()
            for g in self.prog.all_functions():
                for c in g.calls():
                    nm = c.get("fn") or ""
                    if nm in OPEN_SINKS or (c["k"] == "Construct" and "ofstream" in nm and (c.get("np") or 0) >= 1):
                        seeds.add(g.key)
            seen = set(seeds)
            dq = list(seeds)
            while dq:
                k = dq.pop()
                for c in callers.get(k, ()):
                    if c not in seen:
                        seen.add(c)
                        dq.append(c)
            self._reach = seen
        return f.key in self._reach

    def resolve(self, call, fn):
        c = self.prog.callees_of_call(call)
        if len(c) > 1:
            same = [g for g in c if g.file == fn.file]
            if same:
                c = same
        return c[0] if c else None

    # ------------------------------------------------------------------ entry
    def run(self, fn, args=None, genv=None):
        st = State(genv or {})
        for i, p in enumerate(fn.params):
            v = (args or {}).get(i)
            st.env[p["d"]] = v if v is not None else T(A("param:" + p["n"]))
        self._stack.append(fn)
        try:
            out = self.exec_stmt(fn, fn.body, [st])
        finally:
            self._stack.pop()
        ends = []
        for s in out["next"]:
            ends.append((None, s))
        for (rv, s) in out["return"]:
            ends.append((rv, s))
        self.finals.setdefault((fn.name, fn.file), []).extend(ends)
        return ends

    # ------------------------------------------------------------------ statements
    def exec_stmt(self, fn, n, states):
        res = {"next": [], "return": [], "break": [], "continue": []}
        if n is None:
            res["next"] = states
            return res
        k = n["k"]
        if k == "Compound":
            cur = states
            for c in n.get("ch") or []:
                if not cur:
                    break
                r = self.exec_stmt(fn, c, cur)
                for key in ("return", "break", "continue"):
                    res[key].extend(r[key])
                cur = dedupe(r["next"])
            res["next"] = cur
            return res
        if k == "DeclStmt":
            cur = states
            for v in n.get("ch") or []:
                nxt = []
                for s in cur:
                    nxt.extend(self.decl(fn, v, s))
                cur = nxt
            res["next"] = dedupe(cur)
            return res
        if k == "If":
            pre = n.get("pre") or []
            cur = states
            for p in pre:
                cur = self.exec_stmt(fn, p, cur)["next"]
            for s in cur:
                for (cv, s2) in self.eval(fn, n["ch"][0], s):
                    tv = self.truth(cv)
                    for val in ([tv] if tv is not None else [True, False]):
                        s3 = s2.copy() if tv is None else s2
                        br = n["ch"][1] if val else (n["ch"][2] if len(n["ch"]) > 2 else None)
                        r = self.exec_stmt(fn, br, [s3])
                        for key in res:
                            res[key].extend(r[key])
            res["next"] = dedupe(res["next"])
            return res
        if k == "Switch":
            items = flatten_switch(n)
            for s in states:
                for (cv, s2) in self.eval(fn, n["ch"][0], s):
                    iv = cv[1] if isinstance(cv, tuple) and cv and cv[0] == "I" else None
                    if iv is None:
                        starts = [i for i, (labs, _) in enumerate(items) if labs]
                        if not any("default" in labs for labs, _ in items):
                            starts.append(len(items))
                    else:
                        starts = [i for i, (labs, _) in enumerate(items) if iv in labs][:1]
                        if not starts:
                            starts = [i for i, (labs, _) in enumerate(items) if "default" in labs][:1]
                        if not starts:
                            starts = [len(items)]
                    for stt in starts:
                        cur = [s2.copy()]
                        for _, stmt in items[stt:]:
                            if not cur:
                                break
                            r = self.exec_stmt(fn, stmt, cur)
                            res["return"].extend(r["return"])
                            res["continue"].extend(r["continue"])
                            res["next"].extend(r["break"])
                            cur = r["next"]
                        res["next"].extend(cur)
            res["next"] = dedupe(res["next"])
            return res
        if k in ("While", "For", "Do", "RangeFor"):
            for s in states:
                r = self.loop(fn, n, s)
                res["next"].extend(r["next"])
                res["return"].extend(r["return"])
            res["next"] = dedupe(res["next"])
            return res
        if k == "Return":
            for s in states:
                if n.get("ch") and n["ch"][0] is not None:
                    for (v, s2) in self.eval(fn, n["ch"][0], s):
                        res["return"].append((v, s2))
                else:
                    res["return"].append((None, s))
            return res
        if k == "Break":
            res["break"] = states
            return res
        if k == "Continue":
            res["continue"] = states
            return res
        if k in ("Label", "Case", "Default", "Attributed"):
            cur = states
            for c in n.get("ch") or []:
                if c is not None and c["k"] not in ("Int", "Cast", "Ref", "Char"):
                    r = self.exec_stmt(fn, c, cur)
                    for key in ("return", "break", "continue"):
                        res[key].extend(r[key])
                    cur = r["next"]
            res["next"] = cur
            return res
        if k in ("Goto", "Null", "NullStmt"):
            res["next"] = states
            return res
        # expression statement
        for s in states:
            for (_, s2) in self.eval(fn, n, s):
                res["next"].append(s2)
        res["next"] = dedupe(res["next"])
        return res

    def decl(self, fn, v, s):
        if v is None or v["k"] != "Var":
            return [s]
        d = v["d"]
        ty = fn.ty(v)
        ch = [c for c in (v.get("ch") or []) if c is not None]
        if not ch:
            s.env[d] = T() if "basic_string" in ty or "stringstream" in ty or "ostream" in ty else UNK
            if re.search(r"\[\d+\]$", ty):
                s.env[d] = UNK
            return [s]
        out = []
        for (val, s2) in self.eval(fn, ch[0], s):
            ini = strip(ch[0])
            if ini is not None and ini["k"] == "InitList":
                val = UNK
            if ("stringstream" in ty or "ofstream" in ty) and not is_T(val):
                val = T()
            s2.env[d] = val
            out.append(s2)
        return out

    # ------------------------------------------------------------------ loops
    def loop(self, fn, n, s0):
        res = {"next": [], "return": []}
        k = n["k"]
        ch = n.get("ch") or []
        if k == "For":
            init, cond, inc, body = (ch + [None] * 4)[:4]
            cur = self.exec_stmt(fn, init, [s0])["next"] if init is not None else [s0]
        elif k == "While":
            init, cond, inc, body = None, ch[0], None, ch[1] if len(ch) > 1 else None
            cur = [s0]
        elif k == "Do":
            init, cond, inc, body = None, ch[1] if len(ch) > 1 else None, None, ch[0]
            cur = [s0]
        else:
            init, cond, inc, body = None, None, None, ch[-1] if ch else None
            cur = [s0]
        for s in cur:
            idi = self.upper_idiom(fn, n, body, s)
            if idi is not None:
                res["next"].append(idi)
                continue
            entry = s
            for rnd in range(2):
                before = dict(entry.env)
                st = [entry.copy()]
                if cond is not None:
                    st = [x for (_, x) in sum((self.eval(fn, cond, y) for y in st), [])]
                r = self.exec_stmt(fn, body, st)
                outs = r["next"] + r["continue"]
                if inc is not None:
                    outs = [x for (_, x) in sum((self.eval(fn, inc, y) for y in outs), [])]
                outs = outs + r["break"]
                res["return"].extend(r["return"])
                # join: appended parts become a repetition, other changes become unknown
                joined = State(before)
                changed = False
                deltas = {}
                for o in outs:
                    for key, v in o.env.items():
                        b = before.get(key)
                        if v == b:
                            continue
                        if is_T(v) and is_T(b) and v[1][:len(b[1])] == b[1] and self._appendable(b):
                            deltas.setdefault(key, set()).add(v[1][len(b[1]):])
                        elif is_T(v) and is_T(b) and b[1] and isinstance(b[1][-1], str) and v[1][:len(b[1]) - 1] == b[1][:-1] \
                                and isinstance(v[1][len(b[1]) - 1], str) and v[1][len(b[1]) - 1].startswith(b[1][-1]):
                            rest = (v[1][len(b[1]) - 1][len(b[1][-1]):],) + v[1][len(b[1]):]
                            deltas.setdefault(key, set()).add(tuple(x for x in rest if x != ""))
                        else:
                            deltas.setdefault(key, set()).add(None)
                for key, ds in deltas.items():
                    if None in ds:
                        if joined.env.get(key) != UNK:
                            joined.env[key] = UNK
                            changed = True
                    else:
                        joined.env[key] = ("T", before[key][1] + (("rep", frozenset(ds)),))
                if not changed or rnd == 1:
                    res["next"].append(joined)
                    break
                # something a later iteration would read differently: re-run from the widened state
                entry = State({k2: (UNK if joined.env.get(k2) == UNK else v2) for k2, v2 in before.items()})
        return res

    @staticmethod
    def _appendable(b):
        return True

    def upper_idiom(self, fn, loop, body, s):
        """for/while whose body is  X[i] = toupper(Y[i])  (plus index bookkeeping): X := UPPER(Y)."""
        if body is None:
            return None
        assigns = [x for x in walk(body) if x["k"] == "Assign" and x.get("op") == "="]
        if len(assigns) != 1:
            return None
        a = assigns[0]
        lhs, rhs = strip(a["ch"][0]), strip(a["ch"][1])
        if lhs is None or rhs is None or rhs["k"] != "Call" or (rhs.get("fn") or "") not in UPPER_FNS:
            return None

        def sub(x):
            x = strip(x)
            if x is None:
                return None
            if x["k"] == "Subscript":
                return strip(x["ch"][0]), strip(x["ch"][1])
            if x["k"] == "Call" and x.get("opcall") == "[]":
                return strip(x["ch"][0]), strip(x["ch"][1])
            return None
        l = sub(lhs)
        args = [c for c in rhs["ch"] if c is not None and strip(c) is not None and strip(c)["k"] != "Ref" or (strip(c) or {}).get("dk") != "func"]
        r = None
        for c in rhs["ch"]:
            r = sub(c) or r
        if not l or not r or l[0]["k"] != "Ref" or r[0]["k"] != "Ref" or l[1]["k"] != "Ref" or r[1]["k"] != "Ref" or l[1].get("d") != r[1].get("d"):
            return None
        # anything else in the body must only touch the index
        idx = l[1].get("d")
        for x in walk(body):
            if x["k"] in ("Call", "Construct") and x is not rhs and x.get("opcall") != "[]":
                return None
            if x["k"] in ("Assign", "CompoundAssign") and x is not a:
                return None
        src = s.env.get(r[0].get("d")) if r[0].get("dk") in ("local", "param", "staticlocal") else None
        if not is_T(src) or len(src[1]) != 1 or not isinstance(src[1][0], tuple) or src[1][0][0] != "a":
            return None
        s2 = s.copy()
        key = l[0].get("d") if l[0].get("dk") in ("local", "param", "staticlocal") else "G:" + l[0]["n"]
        s2.env[key] = T(A("UPPER(%s)" % src[1][0][1]))
        return s2

    # ------------------------------------------------------------------ expressions
    def truth(self, v):
        if isinstance(v, tuple) and v and v[0] == "I":
            return v[1] != 0
        return None

    def key_of(self, n):
        """Storage key of an lvalue naming a tracked variable."""
        n = strip(n)
        if n is None:
            return None
        if n["k"] == "Paren" and n.get("ch"):
            return self.key_of(n["ch"][0])
        if n["k"] == "Ref":
            if n.get("dk") in ("local", "param", "staticlocal"):
                return n.get("d")
            if n.get("dk") == "global":
                return "G:" + n["n"]
        return None

    def as_string(self, v, s):
        if is_T(v):
            return v
        if isinstance(v, tuple) and v and v[0] == "P":
            cur = s.env.get(v[1])
            if cur is None and v[1].startswith("G:"):
                cur = UNK
            if v[2] == 0 or v[2] == "start":
                return cur if v[2] == "start" else T()
            if is_T(cur):
                # last k characters
                parts = list(cur[1])
                k = v[2]
                tail = ""
                while k > 0 and parts and isinstance(parts[-1], str):
                    take = min(k, len(parts[-1]))
                    tail = parts[-1][-take:] + tail
                    parts[-1] = parts[-1][:-take]
                    k -= take
                    if parts[-1] == "":
                        parts.pop()
                if k == 0:
                    return T(tail)
        return UNK

    def store_string(self, dst, val, s, append=False):
        """Write template `val` through destination value `dst` (a P pointer)."""
        if not (isinstance(dst, tuple) and dst and dst[0] == "P"):
            return
        key, back = dst[1], dst[2]
        if not is_T(val):
            s.env[key] = UNK
            return
        if append:
            cur = s.env.get(key)
            s.env[key] = T(cur, val) if is_T(cur) else UNK
            return
        if back == "start":
            s.env[key] = val
            return
        cur = s.env.get(key)
        base = cut_tail(cur, back) if is_T(cur) else None
        s.env[key] = T(base, val) if base is not None else UNK

    def eval(self, fn, n, s):
        """-> list of (value, state); forks only through inlined callees."""
        if n is None:
            return [(None, s)]
        k = n["k"]
        ch = n.get("ch") or []
        if k in ("Cast", "Paren", "DefaultArg", "DefaultInit", "ExprWithCleanups", "Materialize", "BindTemporary"):
            if "val" in n and isinstance(n["val"], int) and k == "Cast" and not self._has_call(n):
                return [(("I", n["val"]), s)]
            return self.eval(fn, ch[0], s) if ch else [(UNK, s)]
        if k == "Str":
            return [(T(n.get("s", "")), s)]
        if k in ("Int", "Char", "Bool") or (k == "Ref" and n.get("dk") == "enum"):
            return [(("I", n["val"]), s)] if "val" in n else [(UNK, s)]
        if k == "Null0":
            return [(("I", 0), s)]
        if k == "Ref":
            if n.get("dk") == "func":
                nm = n["n"].split("::")[-1]
                if nm == "endl":
                    return [(T("\n"), s)]
                if nm in ("left", "right", "flush", "dec", "hex"):
                    return [(T(("m", nm)), s)]
                return [(UNK, s)]
            key = self.key_of(n)
            ty = fn.ty(n)
            if re.search(r"\[\d*\]$", ty) and key is not None:
                return [(("P", key, "start"), s)]
            if key is not None and key in s.env:
                return [(s.env[key], s)]
            if "val" in n and isinstance(n["val"], int):
                return [(("I", n["val"]), s)]
            if n.get("dk") == "global":
                g = self.prog.global_init(n["n"])
                if g is not None and key not in s.env:
                    v = self.global_value(fn, g, s)
                    if v is not None:
                        return [(v, s)]
                return [(T(A("global:" + n["n"])), s)] if "char" in ty or "string" in ty else [(UNK, s)]
            return [(UNK, s)]
        if k == "Member":
            outs = []
            for (bv, s2) in (self.eval(fn, ch[0], s) if ch else [(UNK, s)]):
                if isinstance(bv, tuple) and bv and bv[0] == "S":
                    outs.append((bv[1].get(n["n"], UNK), s2))
                else:
                    ty = fn.ty(n)
                    if "char" in ty and "*" in ty or "basic_string" in ty:
                        outs.append((T(A(self.sym(fn, n))), s2))
                    else:
                        outs.append((UNK, s2))
            return outs
        if k == "Assign" and n.get("op") == "=":
            outs = []
            for (rv, s2) in self.eval(fn, ch[1], s):
                key = self.key_of(ch[0])
                if key is not None:
                    if isinstance(rv, tuple) and rv and rv[0] == "P" or is_T(rv) or (isinstance(rv, tuple) and rv and rv[0] in ("I", "L", "S")):
                        s2.env[key] = rv
                    else:
                        s2.env[key] = UNK
                    outs.append((rv, s2))
                else:
                    # *p = ..., a[i] = ..., x->f = ...: a store through a tracked buffer makes it unknown
                    l = strip(ch[0])
                    if l is not None and l["k"] in ("Subscript", "Unary"):
                        bk = self.key_of(l["ch"][0]) if l.get("ch") else None
                        if bk is not None and bk in s2.env:
                            idx = strip(l["ch"][1]) if l["k"] == "Subscript" and len(l["ch"]) > 1 else None
                            if rv == ("I", 0) and idx is not None and idx["k"] == "Ref" and "val" not in idx:
                                pass    # buf[i] = '\0' with a running index: terminates the text at its current end
                            elif rv == ("I", 0) and idx is not None and idx.get("val") == 0:
                                s2.env[bk] = T()
                            else:
                                s2.env[bk] = UNK
                    for (_, s3) in self.eval(fn, ch[0], s2):
                        outs.append((rv, s3))
            return outs
        if k == "CompoundAssign":
            outs = []
            for (rv, s2) in self.eval(fn, ch[1], s):
                key = self.key_of(ch[0])
                if key is not None:
                    cur = s2.env.get(key)
                    if n.get("op") == "+=" and is_T(cur) and is_T(rv):
                        s2.env[key] = T(cur, rv)
                    else:
                        s2.env[key] = UNK
                outs.append((UNK, s2))
            return outs
        if k == "Unary":
            op = n.get("op")
            outs = []
            for (v, s2) in self.eval(fn, ch[0], s):
                if op == "!":
                    t = self.truth(v)
                    outs.append((("I", 0 if t else 1) if t is not None else UNK, s2))
                elif op in ("post++", "pre++", "post--", "pre--"):
                    key = self.key_of(ch[0])
                    if key is not None:
                        s2.env[key] = UNK
                    outs.append((UNK, s2))
                elif op == "&":
                    outs.append((v, s2))
                else:
                    outs.append((UNK, s2))
            return outs
        if k == "Binary":
            op = n.get("op")
            outs = []
            if op in ("&&", "||"):
                for (a, s2) in self.eval(fn, ch[0], s):
                    ta = self.truth(a)
                    if op == "&&" and ta is False:
                        outs.append((("I", 0), s2))
                        continue
                    if op == "||" and ta is True:
                        outs.append((("I", 1), s2))
                        continue
                    for (b, s3) in self.eval(fn, ch[1], s2.copy() if ta is None else s2):
                        tb = self.truth(b)
                        if ta is None:
                            # the right operand may not have been evaluated: keep both states
                            outs.append((UNK if not (op == "&&" and tb is False) and not (op == "||" and tb is True) else ("I", int(op == "||")), s3))
                            if s3.key() != s2.key():
                                outs.append((UNK, s2))
                        else:
                            outs.append((("I", int(tb)) if tb is not None else UNK, s3))
                return outs
            for (a, s2) in self.eval(fn, ch[0], s):
                for (b, s3) in self.eval(fn, ch[1], s2):
                    outs.append((self.binop(op, a, b, s3), s3))
            return outs
        if k == "Cond":
            outs = []
            for (c, s2) in self.eval(fn, ch[0], s):
                t = self.truth(c)
                for val in ([t] if t is not None else [True, False]):
                    outs.extend(self.eval(fn, ch[1] if val else ch[2], s2.copy() if t is None else s2))
            return outs
        if k in ("Call", "Construct"):
            return self.call(fn, n, s)
        if k == "InitList":
            return [(UNK, s)]
        if k in ("New", "SizeOf", "Float", "This", "Lambda"):
            return [(UNK, s)]
        # default: evaluate children for their effects
        cur = [s]
        for c in ch:
            nxt = []
            for st in cur:
                nxt.extend(x for (_, x) in self.eval(fn, c, st))
            cur = nxt
        return [(UNK, st) for st in cur]

    def _has_call(self, n):
        return any(x["k"] in ("Call", "Construct", "Assign", "CompoundAssign") for x in walk(n))

    def binop(self, op, a, b, s):
        ia = a[1] if isinstance(a, tuple) and a and a[0] == "I" else None
        ib = b[1] if isinstance(b, tuple) and b and b[0] == "I" else None
        if ia is not None and ib is not None:
            try:
                return ("I", int({"+": ia + ib, "-": ia - ib, "*": ia * ib, "==": ia == ib, "!=": ia != ib, "<": ia < ib,
                                  "<=": ia <= ib, ">": ia > ib, ">=": ia >= ib}[op]))
            except KeyError:
                return UNK
        if isinstance(a, tuple) and a and a[0] == "P":
            if op == "+" and isinstance(b, tuple) and b and b[0] == "L":
                # buf + strlen(buf) [- k]  -> k characters before the end, if the length is that of the buffer itself
                cur = s.env.get(a[1])
                if a[2] == "start" and cur == b[1]:
                    return ("P", a[1], b[2])
                return UNK
            if op == "-" and ib is not None and a[2] != "start":
                return ("P", a[1], a[2] + ib)
            if op == "+" and ib is not None and a[2] != "start" and a[2] - ib >= 0:
                return ("P", a[1], a[2] - ib)
            return UNK
        if isinstance(a, tuple) and a and a[0] == "L" and ib is not None and op in ("-", "+"):
            return ("L", a[1], a[2] + (ib if op == "-" else -ib))
        return UNK

    def sym(self, fn, node):
        """Canonical text of an expression: local and parameter names are replaced by their types, so that two
        functions naming the same thing differently give the same hole."""
        node = strip(node)
        text = expr_str(node)
        names = {}
        for x in walk(node):
            if x["k"] == "Ref" and x.get("dk") in ("local", "param", "staticlocal"):
                names[x["n"]] = "<%s>" % fn.ty(x).replace("const ", "").replace(" const", "")
        for nm, ty in names.items():
            text = re.sub(r"(?<![\w>.])%s\b" % re.escape(nm), ty, text)
        return text

    def global_value(self, fn, g, s):
        """Initialiser of a global: struct of references to global buffers, or a string literal."""
        ini = strip(g["init"][0]) if g.get("init") else None
        if ini is None:
            return None
        if ini["k"] == "Str":
            return T(ini.get("s", ""))
        if ini["k"] == "InitList":
            tyname = g["_types"][g["t"]] if isinstance(g.get("t"), int) else ""
            rec = self.prog.records.get(tyname.replace("struct ", ""))
            if rec and len(rec["fields"]) == len(ini.get("ch") or []):
                out = {}
                for f, c in zip(rec["fields"], ini["ch"]):
                    c = strip(c)
                    if c is not None and c["k"] == "Ref" and c.get("dk") == "global":
                        out[f["n"]] = ("P", "G:" + c["n"], "start")
                    else:
                        out[f["n"]] = UNK
                return ("S", out)
        return None

    # ------------------------------------------------------------------ calls
    def call(self, fn, n, s):
        name = n.get("fn") or ""
        short = name.split("::")[-1]
        ch = n.get("ch") or []
        # evaluate arguments left to right (forks multiply)
        combos = [([], s)]
        for c in ch:
            nxt = []
            for (vals, st) in combos:
                for (v, st2) in self.eval(fn, c, st):
                    nxt.append((vals + [v], st2))
            combos = nxt
        outs = []
        for (vals, st) in combos:
            outs.extend(self.apply(fn, n, name, short, vals, st))
        return outs

    def apply(self, fn, n, name, short, vals, st):
        ch = n.get("ch") or []
        strs = [self.as_string(v, st) if (is_T(v) or (isinstance(v, tuple) and v and v[0] == "P")) else v for v in vals]
        # --- C formatting
        if name in FORMATTERS or short in FORMATTERS:
            di, fi = FORMATTERS.get(name) or FORMATTERS[short]
            fmtv = strs[fi] if fi < len(strs) else None
            val = UNK
            if is_T(fmtv) and len(fmtv[1]) <= 1 and all(isinstance(p, str) for p in fmtv[1]):
                val = self.format(fmtv[1][0] if fmtv[1] else "", strs[fi + 1:], ch[fi + 1:], fn, st)
            self.store_string(vals[di], val, st)
            return [(UNK, st)]
        if short in ("strcpy", "strncpy", "__builtin_strcpy", "__builtin_strncpy"):
            self.store_string(vals[0], strs[1] if len(strs) > 1 else UNK, st)
            return [(vals[0], st)]
        if short in ("strcat", "strncat", "__builtin_strcat"):
            self.store_string(vals[0], strs[1] if len(strs) > 1 else UNK, st, append=True)
            return [(vals[0], st)]
        if short in ("strlen", "__builtin_strlen"):
            v = strs[0] if strs else UNK
            return [(("L", v, 0) if is_T(v) else UNK, st)]
        if short in ("memset", "memcpy", "__builtin_memset", "__builtin_memcpy") and vals and isinstance(vals[0], tuple) and vals[0][:1] == ("P",):
            st.env[vals[0][1]] = UNK
            return [(UNK, st)]
        # --- std::string
        if name.startswith(STRING_CLS) or n["k"] == "Construct" and "basic_string" in name:
            return self.string_op(fn, n, short, vals, strs, st)
        # --- streams
        if n.get("opcall") == "<<" and len(ch) == 2:
            return self.stream_insert(fn, n, vals, strs, st)
        if short == "str" and n.get("member") and "stringstream" in name and len(ch) == 1:
            return [(strs[0] if is_T(strs[0]) else UNK, st)]
        if short in ("setw", "setprecision", "setfill"):
            a = vals[0][1] if vals and isinstance(vals[0], tuple) and vals[0][0] == "I" else "?"
            return [(T(("m", "%s:%s" % (short, a))), st)]
        # --- sinks
        if name in OPEN_SINKS:
            idx = OPEN_SINKS[name] + (1 if n.get("member") else 0)
            v = strs[idx] if idx < len(strs) else UNK
            mode = None
            if name == "fopen" and len(strs) > 1 and is_T(strs[1]):
                mode = render(strs[1])
            self.opens.append((fn, n, v if is_T(v) else UNK, tuple(self._sites), mode))
            return [(UNK, st)]
        if n["k"] == "Construct" and "ofstream" in name and (n.get("np") or 0) >= 1 and strs:
            v = strs[0]
            self.opens.append((fn, n, v if is_T(v) else UNK, tuple(self._sites), "w"))
            return [(T(), st)]
        if n["k"] == "Construct":
            if ("stringstream" in name or "ofstream" in name):
                return [(T(), st)]
            cls = name.split("::")[-1]
            params = (n.get("fk") or "").split("(", 1)[-1]
            if len(vals) == 1 and cls and re.search(r"\b%s\b" % re.escape(cls), params):
                return [(vals[0], st)]      # copy / move construction keeps the value
            return [(UNK, st)]
        if n.get("opcall") == "=" and len(ch) == 2:
            key = self.key_of(ch[0])
            if key is not None:
                st.env[key] = vals[1] if vals[1] is not None else UNK
            return [(vals[1], st)]
        if short in self.opaque:
            return [(self.opaque[short](vals, strs, ch, fn, st), st)]
        # --- user functions
        callee = self.resolve(n, fn)
        if callee is not None and (self.reaches_sink(callee) or callee.name in self.producers):
            if callee in self._stack or len(self._stack) >= self.max_depth:
                return [(UNK, st)]
            return self.inline(fn, n, callee, vals, st)
        # opaque value: name the hole after the call
        ty = fn.ty(n)
        if "char" in ty and "*" in ty or "basic_string" in ty:
            args = []
            for v, c in zip(strs, ch):
                if is_T(v) and len(v[1]) == 1 and isinstance(v[1][0], tuple) and v[1][0][0] == "a":
                    args.append(v[1][0][1])
                elif is_T(v) and all(isinstance(p, str) for p in v[1]):
                    args.append('"%s"' % render(v))
                else:
                    args.append(self.sym(fn, c))
            return [(T(A("%s(%s)" % (short, ",".join(args)))), st)]
        if "int" in ty or "long" in ty:
            return [(UNK, st)]
        return [(UNK, st)]

    def format(self, fmt, argvals, argnodes, fn, st):
        parts = []
        ai = 0
        i = 0
        while True:
            j = fmt.find("%", i)
            if j < 0:
                parts.append(fmt[i:])
                break
            parts.append(fmt[i:j])
            m = FMT_RE.match(fmt, j)
            if not m:
                return UNK
            i = m.end()
            conv = m.group("conv")
            if conv == "%":
                parts.append("%")
                continue
            if m.group("width") == "*" or m.group("prec") == "*":
                return UNK
            v = argvals[ai] if ai < len(argvals) else UNK
            node = argnodes[ai] if ai < len(argnodes) else None
            ai += 1
            if conv == "s":
                if m.group("width") or m.group("prec"):
                    return UNK
                if is_T(v):
                    parts.append(v)
                else:
                    parts.append(A("str:" + self.sym(fn, node)) if node is not None else ("U",))
            elif conv in "diu":
                if isinstance(v, tuple) and v and v[0] == "I" and not m.group("width"):
                    parts.append(str(v[1]))
                else:
                    parts.append(A("int:" + self.sym(fn, node)))
            else:
                parts.append(A("fmt:%" + conv))
        return T(*parts)

    def string_op(self, fn, n, short, vals, strs, st):
        ch = n.get("ch") or []
        if n["k"] == "Construct":
            if not strs:
                return [(T(), st)]
            if len(strs) >= 1 and is_T(strs[0]) and (n.get("np") or len(strs)) <= 2 and not (isinstance(vals[0], tuple) and vals[0][0] in ("I", "L")):
                return [(strs[0], st)]
            return [(UNK, st)]
        obj = self.key_of(ch[0]) if ch else None
        cur = st.env.get(obj) if obj is not None else (strs[0] if strs else None)
        arg = strs[1] if len(strs) > 1 else None
        if short in ("c_str", "data", "str"):
            return [(cur if is_T(cur) else UNK, st)]
        if short in ("length", "size"):
            return [(("L", cur, 0) if is_T(cur) else UNK, st)]
        if obj is None:
            return [(UNK, st)]
        if short in ("append", "operator+=", "push_back"):
            if isinstance(vals[1], tuple) and vals[1] and vals[1][0] == "I" and 32 <= vals[1][1] < 127:
                arg = T(chr(vals[1][1]))
            st.env[obj] = T(cur, arg) if is_T(cur) and is_T(arg) and len(vals) == 2 else UNK
            return [(st.env[obj], st)]
        if short in ("operator=", "assign"):
            st.env[obj] = arg if is_T(arg) and len(vals) == 2 else UNK
            return [(st.env[obj], st)]
        if short == "clear":
            st.env[obj] = T()
            return [(UNK, st)]
        if short == "resize" and len(vals) == 2:
            l = vals[1]
            if isinstance(l, tuple) and l and l[0] == "L" and is_T(cur):
                if l[1] == cur:
                    st.env[obj] = cut_tail(cur, l[2]) if l[2] >= 0 else UNK
                    if st.env[obj] is None:
                        st.env[obj] = UNK
                elif l[2] == 0 and is_T(l[1]) and cur[1][:len(l[1][1])] == l[1][1]:
                    st.env[obj] = l[1]
                elif l[2] == 0 and is_T(l[1]) and render(cur).startswith(render(l[1])) and not has_unknown(cur):
                    st.env[obj] = l[1]
                else:
                    st.env[obj] = UNK
            else:
                st.env[obj] = UNK
            return [(UNK, st)]
        if short == "insert" and len(vals) == 3 and isinstance(vals[1], tuple) and vals[1] == ("I", 0):
            a2 = strs[2]
            st.env[obj] = T(a2, cur) if is_T(cur) and is_T(a2) else UNK
            return [(UNK, st)]
        if short in ("erase", "replace", "swap", "operator[]", "at", "pop_back"):
            if short in ("operator[]", "at") and "const" in (n.get("fk") or ""):
                return [(UNK, st)]
            st.env[obj] = UNK
            return [(UNK, st)]
        return [(UNK, st)]

    def stream_insert(self, fn, n, vals, strs, st):
        ch = n["ch"]
        base = vals[0]
        key = None
        if isinstance(base, tuple) and base and base[0] == "O":
            key = base[1]
        else:
            key = self.key_of(ch[0])
        opv = strs[1]
        if not is_T(opv):
            v1 = vals[1]
            if isinstance(v1, tuple) and v1 and v1[0] == "I" and "char" in fn.ty(strip(ch[1]) or ch[1]) and 0 < v1[1] < 127:
                opv = T(chr(v1[1]))
            elif isinstance(v1, tuple) and v1 and v1[0] == "I":
                opv = T(str(v1[1]))
            else:
                node = strip(ch[1])
                ty = fn.ty(node) if node is not None else ""
                if re.search(r"\b(int|long|unsigned|size_t|short)\b", ty):
                    opv = T(A("int:" + expr_str(node)))
                else:
                    opv = T(("U",))
        if key is None:
            return [(UNK, st)]
        cur = st.env.get(key)
        if cur is None:
            cur = T(A("stream:" + key)) if not key.startswith("G:") else T()
        st.env[key] = T(cur, opv) if is_T(cur) else UNK
        self.chains.append((fn, n, key, opv))
        return [(("O", key), st)]

    def inline(self, fn, n, callee, vals, st):
        ch = n.get("ch") or []
        args = {}
        clobber = []
        off = 1 if n.get("member") else 0
        for i, p in enumerate(callee.params):
            if i + off < len(vals):
                v = vals[i + off]
                # streams / strings passed by reference are passed as their current value
                c = strip(ch[i + off]) if i + off < len(ch) else None
                if isinstance(v, tuple) and v and v[0] == "P" and not v[1].startswith("G:"):
                    # a pointer into one of the caller's buffers: the callee sees its current text;
                    # a callee that may write through it (non-const parameter) leaves it unknown afterwards
                    pty = callee.tyname(p.get("t"))
                    if "const" not in pty:
                        clobber.append(v[1])
                    v = self.as_string(v, st)
                if (v is None or v == UNK) and c is not None:
                    ty = fn.ty(c)
                    if ("char" in ty and "*" in ty) or "basic_string" in ty:
                        v = T(A(self.sym(fn, c)))
                    elif re.search(r"\b(int|long|unsigned|short)\b", ty) and "*" not in ty:
                        v = None
                args[i] = v
        genv = {k: v for k, v in st.env.items() if k.startswith("G:")}
        mkey = (callee.key, callee.file, repr(sorted((k, repr(v)) for k, v in args.items())), repr(sorted(genv.items())))
        if mkey in self._memo:
            ends = self._memo[mkey]
        else:
            ends = []
            self._sites.append((fn, n))
            try:
                runs = self.run(callee, args, genv)
            finally:
                self._sites.pop()
            for (rv, es) in runs:
                if isinstance(rv, tuple) and rv and rv[0] == "P" and not rv[1].startswith("G:"):
                    rv = self.as_string(rv, es)
                ends.append((rv, {k: v for k, v in es.env.items() if k.startswith("G:")}))
            # dedupe outcomes
            seen = {}
            for rv, g in ends:
                seen.setdefault(repr((rv, sorted(g.items()))), (rv, g))
            ends = list(seen.values())
            self._memo[mkey] = ends
        outs = []
        for (rv, g) in ends:
            s2 = st.copy() if len(ends) > 1 else st
            s2.env.update(g)
            for ck in clobber:
                s2.env[ck] = UNK
            outs.append((rv if rv is not None else UNK, s2))
        return outs or [(UNK, st)]
