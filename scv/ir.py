"""Resolved-program IR on top of the scv fact files: functions, AST nodes, CFG,
dominators, class hierarchy, call graph.  Pure Python, stdlib only."""
import re
from collections import defaultdict, deque


_REL = re.compile(r"^.*?/(src|include|cmake|test)/")


def relpath(p):
    """Path relative to the repository root (also for self-test subjects and scratch copies)."""
    if p.startswith("/repo/"):
        return p[len("/repo/"):]
    return _REL.sub(lambda m: m.group(1) + "/", p, count=1)


def walk(n):
    """Pre-order over a node tree (dicts); skips None."""
    st = [n]
    while st:
        x = st.pop()
        if x is None:
            continue
        yield x
        for key in ("callee", "pre", "ch"):
            c = x.get(key)
            if c:
                st.extend(reversed(c))


def kids(n):
    out = []
    for key in ("pre", "ch", "callee"):
        c = n.get(key)
        if c:
            out.extend(x for x in c if x is not None)
    return out


def strip(n):
    """Look through casts / default-arg wrappers."""
    while n is not None and n["k"] in ("Cast", "DefaultArg", "DefaultInit") and n.get("ch"):
        n = n["ch"][0]
    return n


def expr_str(n, depth=0):
    """Readable, canonical rendering of an expression (used for access paths and messages)."""
    if n is None:
        return ""
    if depth > 12:
        return "..."
    k = n["k"]
    ch = n.get("ch") or []
    d = depth + 1
    if k == "Ref":
        return n["n"]
    if k == "Member":
        b = ch[0] if ch else None
        if b is None or b["k"] == "This":
            return n["n"]
        return expr_str(b, d) + ("->" if n.get("arrow") else ".") + n["n"]
    if k == "This":
        return "this"
    if k in ("Int", "Bool"):
        return str(n.get("val"))
    if k == "Char":
        v = n.get("val", 0)
        return repr(chr(v)) if 32 <= v < 127 else "'\\x%02x'" % v
    if k == "Float":
        return n.get("fval", "?")
    if k == "Str":
        return '"' + n.get("s", "").replace("\n", "\\n") + '"'
    if k == "Null0":
        return "NULL"
    if k == "Call":
        name = n.get("fn") or (expr_str(n["callee"][0], d) if n.get("callee") else "?")
        args = ch
        if n.get("opcall"):
            op = n["opcall"]
            if len(args) == 2:
                if op == "[]":
                    return "%s[%s]" % (expr_str(args[0], d), expr_str(args[1], d))
                return "%s %s %s" % (expr_str(args[0], d), op, expr_str(args[1], d))
            if len(args) == 1:
                return op + expr_str(args[0], d)
        if n.get("member") and args:
            obj = args[0]
            short = name.split("::")[-1]
            o = expr_str(obj, d)
            if obj is not None and obj["k"] == "This":
                return "%s(%s)" % (short, ", ".join(expr_str(a, d) for a in args[1:]))
            return "%s.%s(%s)" % (o, short, ", ".join(expr_str(a, d) for a in args[1:]))
        return "%s(%s)" % (name, ", ".join(expr_str(a, d) for a in args))
    if k == "Construct":
        return "%s(%s)" % (n.get("fn", "ctor").split("::")[-1], ", ".join(expr_str(a, d) for a in ch))
    if k in ("Binary", "Assign", "CompoundAssign"):
        return "%s %s %s" % (expr_str(ch[0], d), n["op"], expr_str(ch[1], d))
    if k == "Unary":
        op = n["op"]
        if op.startswith("post"):
            return expr_str(ch[0], d) + op[4:]
        if op.startswith("pre"):
            return op[3:] + expr_str(ch[0], d)
        return op + expr_str(ch[0], d)
    if k == "Cast":
        return expr_str(ch[0], d)
    if k == "Subscript":
        return "%s[%s]" % (expr_str(ch[0], d), expr_str(ch[1], d))
    if k == "Cond":
        return "%s ? %s : %s" % tuple(expr_str(c, d) for c in ch[:3])
    if k == "SizeOf":
        return "sizeof(%s)" % (expr_str(ch[0], d) if ch else "T")
    if k in ("DefaultArg", "DefaultInit"):
        return expr_str(ch[0], d) if ch else ""
    if k == "InitList":
        return "{%s}" % ", ".join(expr_str(c, d) for c in ch[:4])
    if k == "New":
        return "new[%s]" % expr_str(ch[0], d) if n.get("array") else "new"
    if k == "Var":
        return "%s = %s" % (n["n"], expr_str(ch[0], d)) if ch and ch[0] else n["n"]
    if k == "DeclStmt":
        return "; ".join(expr_str(c, d) for c in ch)
    if k == "Return":
        return "return " + (expr_str(ch[0], d) if ch and ch[0] else "")
    return k


def access_path(n):
    """Canonical access path of an lvalue-ish expression or None."""
    n = strip(n)
    if n is None:
        return None
    k = n["k"]
    if k == "Ref":
        return n["d"]
    if k == "Member":
        b = n["ch"][0] if n.get("ch") else None
        if b is None or b["k"] == "This":
            return "this." + n["n"]
        p = access_path(b)
        return None if p is None else p + "." + n["n"]
    if k == "Unary" and n["op"] in ("*",):
        p = access_path(n["ch"][0])
        return None if p is None else "*" + p
    if k == "Unary" and n["op"] in ("&",):
        p = access_path(n["ch"][0])
        return None if p is None else "&" + p
    if k == "Subscript":
        p = access_path(n["ch"][0])
        i = strip(n["ch"][1])
        if p is None:
            return None
        if i is not None and "val" in i:
            return "%s[%s]" % (p, i["val"])
        ip = access_path(i)
        return "%s[%s]" % (p, ip if ip else "?")
    if k == "This":
        return "this"
    return None


class CFG:
    def __init__(self, fn, raw):
        self.fn = fn
        self.entry = raw["entry"]
        self.exit = raw["exit"]
        self.blocks = {b["b"]: b for b in raw["blocks"]}
        # clang links blocks that end in a noreturn call (exit/abort) to the exit block;
        # for "returning path" rules such blocks have no successor.
        self.succ = {b: ([] if blk.get("noreturn") else [s for s in blk["s"] if s >= 0])
                     for b, blk in self.blocks.items()}
        self.pred = defaultdict(list)
        for b, ss in self.succ.items():
            for s in ss:
                self.pred[s].append(b)
        self.pos = {}
        for b, blk in self.blocks.items():
            for i, e in enumerate(blk["e"]):
                # the same stmt may appear twice (rare); keep first
                self.pos.setdefault(e, (b, i))
        self._dom = None
        self._pdom = None

    # -- structure ---------------------------------------------------------
    def locate(self, node):
        """(block, index) of the CFG element that contains `node` (climbing parents)."""
        n = node
        while n is not None:
            p = self.pos.get(n["i"])
            if p is not None:
                return p
            n = self.fn.parent.get(n["i"])
        return None

    def reachable_blocks(self, start=None):
        start = self.entry if start is None else start
        seen = {start}
        dq = deque([start])
        while dq:
            b = dq.popleft()
            for s in self.succ[b]:
                if s not in seen:
                    seen.add(s)
                    dq.append(s)
        return seen

    def dominators(self):
        if self._dom is not None:
            return self._dom
        reach = self.reachable_blocks()
        order = []
        seen = set()

        def dfs(b):
            stack = [(b, iter(self.succ[b]))]
            seen.add(b)
            while stack:
                node, it = stack[-1]
                for s in it:
                    if s not in seen:
                        seen.add(s)
                        stack.append((s, iter(self.succ[s])))
                        break
                else:
                    order.append(node)
                    stack.pop()
        dfs(self.entry)
        rpo = list(reversed(order))
        dom = {b: set(reach) for b in reach}
        dom[self.entry] = {self.entry}
        changed = True
        while changed:
            changed = False
            for b in rpo:
                if b == self.entry:
                    continue
                ps = [p for p in self.pred[b] if p in reach]
                if not ps:
                    continue
                new = set.intersection(*(dom[p] for p in ps)) | {b}
                if new != dom[b]:
                    dom[b] = new
                    changed = True
        self._dom = dom
        return dom

    def dominates(self, pa, pb):
        """position pa=(block,idx) dominates position pb."""
        if pa is None or pb is None:
            return False
        if pa[0] == pb[0]:
            return pa[1] <= pb[1]
        d = self.dominators()
        return pb[0] in d and pa[0] in d[pb[0]]

    def postdominators(self):
        """post-dominator sets per block (exit = function exit; blocks ending in a noreturn call count as exits)"""
        if getattr(self, "_pdom", None) is not None:
            return self._pdom
        nodes = set(self.blocks)
        succ = {b: list(self.succ[b]) for b in nodes}
        for b, blk in self.blocks.items():
            if blk.get("noreturn") and self.exit not in succ[b]:
                succ[b].append(self.exit)
        pdom = {b: set(nodes) for b in nodes}
        pdom[self.exit] = {self.exit}
        changed = True
        while changed:
            changed = False
            for b in nodes:
                if b == self.exit:
                    continue
                ss = succ[b]
                if not ss:
                    new = {b}
                else:
                    new = set.intersection(*(pdom[x] for x in ss)) | {b}
                if new != pdom[b]:
                    pdom[b] = new
                    changed = True
        self._pdom = pdom
        return pdom

    def postdominates(self, pa, pb):
        """position pa is on every path from pb to the function exit"""
        if pa is None or pb is None:
            return False
        if pa[0] == pb[0]:
            return pa[1] >= pb[1]
        return pa[0] in self.postdominators().get(pb[0], ())

    def edge_kind(self, b, s):
        """'T' / 'F' / case-index for the edge b->s of a two-way branch."""
        ss = self.blocks[b]["s"]
        if len(ss) == 2:
            if ss[0] == s and ss[1] != s:
                return "T"
            if ss[1] == s and ss[0] != s:
                return "F"
        return None

    def paths_avoiding(self, start_pos, is_stop, is_target_block=None, forbid_edge=None):
        """Explore forward from just after start_pos.  An element for which
        is_stop(node) is true cuts the path.  Returns the set of blocks whose END
        was reached un-cut (including the exit block if reachable)."""
        fn = self.fn
        b0, i0 = start_pos
        reached_end = set()
        seen = set()
        dq = deque([(b0, i0 + 1)])
        while dq:
            b, i = dq.popleft()
            blk = self.blocks[b]
            cut = False
            for j in range(i, len(blk["e"])):
                if is_stop(fn.nodes[blk["e"][j]]):
                    cut = True
                    break
            if cut:
                continue
            reached_end.add(b)
            for s in self.succ[b]:
                if forbid_edge and forbid_edge(b, s):
                    continue
                if s not in seen:
                    seen.add(s)
                    dq.append((s, 0))
        return reached_end

    def reaches(self, pa, pb, is_stop=None):
        """Is there a path from just after position pa to position pb on which no element satisfies is_stop?
        (pb itself is not tested against is_stop.)"""
        if pa is None or pb is None:
            return False
        fn = self.fn
        seen = set()
        dq = deque([(pa[0], pa[1] + 1)])
        while dq:
            b, i = dq.popleft()
            blk = self.blocks[b]
            cut = False
            for j in range(i, len(blk["e"])):
                if (b, j) == tuple(pb):
                    return True
                if is_stop is not None and is_stop(fn.nodes[blk["e"][j]]):
                    cut = True
                    break
            if cut:
                continue
            for s in self.succ[b]:
                if s not in seen:
                    seen.add(s)
                    dq.append((s, 0))
        return False


class Function:
    def __init__(self, raw, unit):
        self.raw = raw
        self.unit = unit
        self.name = raw["name"]
        self.key = raw["key"]
        self.file = raw["file"]
        self.line = raw["line"]
        self.endline = raw.get("endline", raw["line"])
        self.params = raw.get("params", [])
        self.body = raw["body"]
        self.cls = raw.get("class")
        self.types = unit["types"]
        self.component = unit.get("_component")
        self._nodes = None
        self._parent = None
        self._cfg = None

    def _index(self):
        self._nodes = {}
        self._parent = {}
        st = [(self.body, None)]
        roots = [self.body]
        for ini in self.raw.get("inits", []):
            for c in ini.get("ch", []):
                if c is not None:
                    st.append((c, None))
        while st:
            n, p = st.pop()
            if n is None:
                continue
            self._nodes[n["i"]] = n
            if p is not None:
                self._parent[n["i"]] = p
            for c in kids(n):
                st.append((c, n))

    @property
    def nodes(self):
        if self._nodes is None:
            self._index()
        return self._nodes

    @property
    def parent(self):
        if self._parent is None:
            self._index()
        return self._parent

    @property
    def cfg(self):
        if self._cfg is None and "cfg" in self.raw:
            self._cfg = CFG(self, self.raw["cfg"])
        return self._cfg

    def ty(self, n):
        t = n.get("t", -1)
        return self.types[t] if isinstance(t, int) and 0 <= t < len(self.types) else ""

    def tyname(self, idx):
        return self.types[idx] if isinstance(idx, int) and 0 <= idx < len(self.types) else ""

    def walk(self):
        return walk(self.body)

    def walk_all(self):
        """body plus constructor initialisers"""
        for ini in self.raw.get("inits", []):
            for c in ini.get("ch", []):
                if c is not None:
                    for x in walk(c):
                        yield x
        for x in walk(self.body):
            yield x

    def calls(self, name=None):
        for n in self.walk():
            if n["k"] in ("Call", "Construct"):
                if name is None or n.get("fn") == name or (n.get("fn") or "").split("::")[-1] == name:
                    yield n

    def first_pos(self, n):
        """CFG position of the element evaluated first inside n (statements and short-circuit operators are not
        elements themselves): leftmost innermost element in post-order."""
        def post(x):
            for key in ("pre", "ch"):
                for c in x.get(key) or []:
                    if c is not None:
                        r = post(c)
                        if r is not None:
                            return r
            return self.cfg.pos.get(x["i"])
        r = post(n)
        return r if r is not None else self.cfg.locate(n)

    def ancestors(self, n):
        p = self.parent.get(n["i"])
        while p is not None:
            yield p
            p = self.parent.get(p["i"])

    def relfile(self):
        return relpath(self.file)

    def where(self, n=None):
        return "%s:%s" % (self.relfile(), n["l"] if n is not None else self.line)


class Program:
    def __init__(self, facts):
        self.facts = facts
        self.functions = {}          # key -> Function (first definition)
        self.by_name = defaultdict(list)
        self.records = {}
        self.enums = {}
        self.enum_items = {}         # enumerator name -> value (global, C style)
        self.globals = defaultdict(list)
        self.units = [f.get("unit") for f in facts]
        for u in facts:
            for fr in u["functions"]:
                # same key in different files = different programs' definitions (e.g. EXPRESSinit_init);
                # the same (key, file) seen from several units is one header-defined function
                k = (fr["key"], fr["file"])
                if k in self.functions:
                    continue
                f = Function(fr, u)
                self.functions[k] = f
                self.by_name[f.name].append(f)
            for r in u["records"]:
                cur = self.records.get(r["name"])
                if cur is None or (not cur["fields"] and r["fields"]):
                    r = dict(r)
                    r["_types"] = u["types"]
                    self.records[r["name"]] = r
            for e in u["enums"]:
                if e["name"] not in self.enums:
                    self.enums[e["name"]] = {i["n"]: i["v"] for i in e["items"]}
                    for i in e["items"]:
                        self.enum_items.setdefault(i["n"], i["v"])
            for g in u["globals"]:
                g = dict(g)
                g["_types"] = u["types"]
                g["_unit"] = u.get("unit")
                self.globals[g["name"]].append(g)
        self._subclasses = None
        self._callers = None

    def all_functions(self):
        return self.functions.values()

    def fn(self, name, file_suffix=None):
        """Unique function by qualified name (optionally restricted to a file)."""
        c = [f for f in self.by_name.get(name, []) if file_suffix is None or f.file.endswith(file_suffix)]
        return c

    def one(self, name, file_suffix=None, sig=None):
        c = self.fn(name, file_suffix)
        if sig is not None:
            c = [f for f in c if sig in f.key]
        if len(c) != 1:
            return None
        return c[0]

    def global_init(self, name, file_suffix=None):
        for g in self.globals.get(name, []):
            if g.get("init") and (file_suffix is None or g["file"].endswith(file_suffix)):
                return g
        return None

    # -- class hierarchy -----------------------------------------------------
    def subclasses(self, name):
        if self._subclasses is None:
            self._subclasses = defaultdict(set)
            for r in self.records.values():
                for b in r["bases"]:
                    self._subclasses[b].add(r["name"])
        out = set()
        dq = deque([name])
        while dq:
            c = dq.popleft()
            for s in self._subclasses.get(c, ()):
                if s not in out:
                    out.add(s)
                    dq.append(s)
        return out

    def overriders(self, key):
        """Function keys of all definitions that (transitively) override `key`."""
        out = []
        for f in self.functions.values():
            seen = set()
            st = list(f.raw.get("overrides", []))
            while st:
                o = st.pop()
                if o in seen:
                    continue
                seen.add(o)
                if o == key:
                    out.append(f)
                    break
                # climb: find declared method with that key
                for r in self.records.values():
                    for m in r["methods"]:
                        if m["key"] == o:
                            st.extend(m["overrides"])
        return out

    def callees_of_call(self, call):
        """Resolved target functions of a call node (virtual => CHA expansion)."""
        fk = call.get("fk")
        if not fk:
            return []
        out = [f for (k, _), f in self.functions.items() if k == fk]
        if call.get("virt"):
            out += self.overriders(fk)
        return out

    def callgraph(self):
        if self._callers is not None:
            return self._callees, self._callers
        self._callees = defaultdict(set)
        self._callers = defaultdict(set)
        bykey = defaultdict(list)
        for (k, _), f in self.functions.items():
            bykey[k].append(f)
        ovr = defaultdict(list)
        # method key -> overriding definitions (transitive via records table)
        decl_over = {}
        for r in self.records.values():
            for m in r["methods"]:
                decl_over[m["key"]] = m["overrides"]
        for f in self.functions.values():
            seen = set()
            st = list(f.raw.get("overrides", []))
            while st:
                o = st.pop()
                if o in seen:
                    continue
                seen.add(o)
                ovr[o].append(f)
                st.extend(decl_over.get(o, []))
        self._overriders = ovr
        for f in self.functions.values():
            for n in walk(f.body):
                fk = None
                if n["k"] in ("Call", "Construct"):
                    fk = n.get("fk")
                elif n["k"] in ("Ref", "Member") and n.get("fk"):
                    fk = n.get("fk")  # address taken / function pointer
                if not fk:
                    continue
                targets = list(bykey.get(fk, []))
                if n.get("virt") or n["k"] != "Call":
                    targets += ovr.get(fk, [])
                for t in targets:
                    self._callees[f.key].add(t.key)
                    self._callers[t.key].add(f.key)
                if not targets:
                    self._callees[f.key].add(fk)
        return self._callees, self._callers

    def reachable_from(self, keys):
        callees, _ = self.callgraph()
        seen = set(keys)
        dq = deque(keys)
        while dq:
            k = dq.popleft()
            for c in callees.get(k, ()):
                if c not in seen:
                    seen.add(c)
                    dq.append(c)
        return seen


def array_len(tystr):
    m = re.search(r"\[(\d+)\]$", tystr or "")
    return int(m.group(1)) if m else None
