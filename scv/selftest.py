"""Rule self-tests: each rule is run on a tiny subject under scv/selftest/<pid>/ that
contains conforming and violating instances; the set of failing obligation keys
must be exactly the expected one, otherwise the run is analysis-broken (exit 2)."""
import os

import facts
import ir
import report

HERE = os.path.dirname(os.path.abspath(__file__))


def load(pid, files, flags=None):
    root = os.path.join(HERE, "selftest", pid.lower())
    units = []
    for f in files:
        p = os.path.join(root, f)
        lang = "c" if p.endswith(".c") else "c++"
        fl = list(flags or []) + (["-std=c11"] if lang == "c" else ["-std=c++11"]) + ["-I" + os.path.dirname(p)]
        units.append({"file": p, "flags": fl, "lang": lang, "component": "selftest"})
    fl = facts.extract(units, roots=[root + "/"], use_cache=True)
    return ir.Program(fl)


def expect(res, name, sub, expected_fail, expected_ok_min=1):
    """sub: Result from running rule functions on the subject.
    expected_fail: list of substrings; each must match exactly one failing key and every
    failing key must be matched."""
    failing = [o for o in sub.obs if not o.ok]
    okc = len([o for o in sub.obs if o.ok])
    unmatched = list(failing)
    for e in expected_fail:
        hit = [o for o in unmatched if e in o.key or e in o.rule + "|" + o.key]
        if not hit:
            res.broke("self-test %s: rule did not fire on the planted violation %r" % (name, e))
            continue
        unmatched.remove(hit[0])
    for o in unmatched:
        res.broke("self-test %s: rule fired on conforming code: %s (%s)" % (name, o.key, o.msg))
    if okc < expected_ok_min:
        res.broke("self-test %s: only %d conforming instances recognised (< %d)" % (name, okc, expected_ok_min))
    res.info.setdefault("selftests", []).append(
        {"name": name, "planted_violations": len(expected_fail), "fired": len(failing), "conforming_ok": okc})


def run_c13(res, r4_append):
    """stale-copy rule: must fire on AppendStale (3 uses after the renumbering) and stay silent on AppendFresh"""
    prog = load("C13", ["src/clstepcore/instmgr.cc"])
    for name, want in (("InstMgr::AppendStale", True), ("InstMgr::AppendFresh", False)):
        sub = report.Result("C13")
        n = r4_append(prog, sub, fn_name=name, selftest=True)
        if n is None:
            res.broke("self-test C13: %s not analysed (%s)" % (name, "; ".join(sub.broken)))
            continue
        if want and n < 3:
            res.broke("self-test C13: stale-copy rule found %d uses in %s (planted: 3)" % (n, name))
        if not want and n != 0:
            res.broke("self-test C13: stale-copy rule fired on conforming %s: %s" % (name, [o.msg for o in sub.obs if not o.ok][:2]))
        res.info.setdefault("selftests", []).append({"name": "C13 " + name, "planted": want, "stale_uses_reported": n})
