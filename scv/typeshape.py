"""Three-valued exploration of code that branches on the *shape* of one EXPRESS type object (engine E5, table form).

A cell fixes what a declared type looks like: `kind` (TypeBody_::type) and whether it has a `head` (it renames another
named type).  Conditions that only look at the shape of the tracked object are decided; every other condition is free
(both branches explored).  The explorer answers "can this entry reach a target call on the tracked object?" and follows
calls that pass the tracked object on.  Used to build the scanner's and the generator's "this type gets its own file"
tables from their own source."""
from ir import walk, strip
from engines import flatten_switch

KIND_PATH = ("u", "type", "body", "type")
HEAD_PATH = ("u", "type", "head")


def member_path(n):
    """Member chain -> (root node, (names outermost-last))"""
    names = []
    n = strip(n)
    while n is not None and n["k"] == "Member":
        names.append(n["n"])
        n = strip(n["ch"][0]) if n.get("ch") else None
    while n is not None and n["k"] == "Paren" and n.get("ch"):
        n = strip(n["ch"][0])
    return n, tuple(reversed(names))


class Explorer:
    def __init__(self, prog, kind, head, is_target, ancestor_fn="TYPEget_ancestor", prefer_file=None, trace=None):
        self.prog = prog
        self.kind = kind
        self.head = head
        self.is_target = is_target
        self.ancestor_fn = ancestor_fn
        self.memo = {}
        self.retmemo = {}
        self.hits = []
        self.stack = []
        self.free_conditions = set()
        self.prefer_file = prefer_file

    # ---- tracked aliases
    def tracked_ref(self, n, tracked):
        n = strip(n)
        while n is not None and n["k"] == "Paren" and n.get("ch"):
            n = strip(n["ch"][0])
        return n is not None and n["k"] == "Ref" and n.get("d") in tracked

    def resolve(self, call, fn):
        c = self.prog.callees_of_call(call)
        if len(c) > 1:
            same = [g for g in c if g.file == fn.file]
            if same:
                c = same
            elif self.prefer_file:
                pf = [g for g in c if self.prefer_file in g.file]
                if pf:
                    c = pf
        return c[0] if c else None

    # ---- condition evaluation: returns True / False / None and an optional int value
    def value(self, fn, n, tracked):
        """-> ('int', v) | ('ptr', nonnull bool) | ('bool', b) | None"""
        n0 = n
        n = strip(n)
        if n is None:
            return None
        k = n["k"]
        ch = n.get("ch") or []
        if k == "Paren":
            return self.value(fn, ch[0], tracked)
        if "val" in n and isinstance(n["val"], int) and k in ("Int", "Char", "Bool", "Ref", "Cast"):
            if not any(x["k"] in ("Call", "Assign") for x in walk(n)):
                return ("int", n["val"])
        if k == "Null0":
            return ("ptr", False)
        if k == "Ref":
            if n.get("d") in tracked:
                return ("ptr", True)
            return None
        if k == "Member":
            root, names = member_path(n)
            if root is not None and root["k"] == "Ref" and root.get("d") in tracked:
                if names == KIND_PATH:
                    return ("int", self.kind)
                if names == HEAD_PATH:
                    return ("ptr", self.head)
                if names[:2] == ("u", "type") or names == ("u",) or names == ("u", "type", "body"):
                    return ("ptr", True)
            return None
        if k == "Unary" and n.get("op") == "!":
            t = self.truth(fn, ch[0], tracked)
            return ("bool", not t) if t is not None else None
        if k == "Binary":
            op = n.get("op")
            if op in ("&&", "||"):
                a = self.truth(fn, ch[0], tracked)
                b = self.truth(fn, ch[1], tracked)
                if op == "&&":
                    if a is False or b is False:
                        return ("bool", False)
                    if a is True and b is True:
                        return ("bool", True)
                    return None
                if a is True or b is True:
                    return ("bool", True)
                if a is False and b is False:
                    return ("bool", False)
                return None
            if op in ("==", "!=", "<", ">", "<=", ">="):
                a = self.value(fn, ch[0], tracked)
                b = self.value(fn, ch[1], tracked)
                if a and b:
                    if a[0] == "int" and b[0] == "int":
                        r = {"==": a[1] == b[1], "!=": a[1] != b[1], "<": a[1] < b[1], ">": a[1] > b[1],
                             "<=": a[1] <= b[1], ">=": a[1] >= b[1]}[op]
                        return ("bool", r)
                    pa = a[1] if a[0] == "ptr" else (a[1] != 0 if a[0] == "int" else None)
                    pb = b[1] if b[0] == "ptr" else (b[1] != 0 if b[0] == "int" else None)
                    # pointer against the null constant
                    if a[0] == "ptr" and b in (("int", 0), ("ptr", False)) and op in ("==", "!="):
                        return ("bool", (not a[1]) if op == "==" else a[1])
                    if b[0] == "ptr" and a in (("int", 0), ("ptr", False)) and op in ("==", "!="):
                        return ("bool", (not b[1]) if op == "==" else b[1])
                return None
            return None
        if k == "Assign" and n.get("op") == "=":
            return self.value(fn, ch[1], tracked)
        if k == "Call":
            nm = n.get("fn") or ""
            args = ch
            if nm == self.ancestor_fn and args and self.tracked_ref(args[0], tracked):
                return ("ptr", self.head)       # relation checked by the rule (ancestor != 0  <=>  head != 0)
            callee = self.resolve(n, fn)
            if callee is not None:
                idx = [i for i, a in enumerate(args) if self.tracked_ref(a, tracked)]
                if idx and idx[0] < len(callee.params):
                    rs = self.returns(callee, idx[0])
                    if len(rs) == 1:
                        r = next(iter(rs))
                        if r is not None:
                            return r
            return None
        return None

    def truth(self, fn, n, tracked):
        v = self.value(fn, n, tracked)
        if v is None:
            self.free_conditions.add((fn.name, (strip(n) or {}).get("l")))
            return None
        if v[0] == "int":
            return v[1] != 0
        return bool(v[1])

    # ---- return values of a predicate on the tracked object
    def returns(self, callee, pidx):
        key = (callee.key, callee.file, pidx)
        if key in self.retmemo:
            return self.retmemo[key]
        self.retmemo[key] = {None}
        tracked = {callee.params[pidx]["d"]}
        rets = set()
        self.walk_stmt(callee, callee.body, tracked, rets)
        out = set()
        for r in rets:
            if r is None:
                out.add(None)
            elif r[0] == "int":
                out.add(("int", r[1]))
            else:
                out.add(r)
        # collapse to truth when several nonzero ints
        self.retmemo[key] = out if out else {None}
        return self.retmemo[key]

    # ---- statements
    def walk_stmt(self, fn, n, tracked, rets=None):
        """-> set of flows out of n: 'next' 'break' 'continue' 'return'"""
        if n is None:
            return {"next"}
        k = n["k"]
        ch = n.get("ch") or []
        if k == "Compound":
            flows = set()
            cur = True
            for c in ch:
                f = self.walk_stmt(fn, c, tracked, rets)
                flows |= (f - {"next"})
                if "next" not in f:
                    cur = False
                    break
            if cur:
                flows.add("next")
            return flows
        if k == "DeclStmt":
            for v in ch:
                if v is not None and v["k"] == "Var" and v.get("ch"):
                    ini = v["ch"][0]
                    self.scan_expr(fn, ini, tracked)
                    if self.tracked_ref(ini, tracked):
                        tracked.add(v["d"])
            return {"next"}
        if k == "If":
            for p in n.get("pre") or []:
                self.walk_stmt(fn, p, tracked, rets)
            self.scan_expr(fn, ch[0], tracked)
            t = self.truth(fn, ch[0], tracked)
            flows = set()
            if t is not False:
                flows |= self.walk_stmt(fn, ch[1], tracked, rets)
            if t is not True:
                flows |= self.walk_stmt(fn, ch[2], tracked, rets) if len(ch) > 2 and ch[2] is not None else {"next"}
            return flows
        if k == "Switch":
            self.scan_expr(fn, ch[0], tracked)
            v = self.value(fn, ch[0], tracked)
            items = flatten_switch(n)
            if v is not None and v[0] == "int":
                starts = [i for i, (labs, _) in enumerate(items) if v[1] in labs][:1]
                if not starts:
                    starts = [i for i, (labs, _) in enumerate(items) if "default" in labs][:1]
                if not starts:
                    return {"next"}
            else:
                starts = [i for i, (labs, _) in enumerate(items) if labs]
            flows = set()
            if not (v is not None and v[0] == "int") and not any("default" in labs for labs, _ in items):
                flows.add("next")
            for st in starts:
                done = False
                for _, stmt in items[st:]:
                    f = self.walk_stmt(fn, stmt, tracked, rets)
                    flows |= (f & {"return", "continue"})
                    if "break" in f:
                        flows.add("next")
                    if "next" not in f:
                        done = True
                        break
                if not done:
                    flows.add("next")
            return flows
        if k in ("While", "For", "Do", "RangeFor"):
            body = ch[-1] if k != "Do" else ch[0]
            for c in ch:
                if c is not body and c is not None:
                    if c["k"] in ("DeclStmt",):
                        self.walk_stmt(fn, c, tracked, rets)
                    else:
                        self.scan_expr(fn, c, tracked)
            f = self.walk_stmt(fn, body, tracked, rets)
            out = {"next"}
            if "return" in f:
                out.add("return")
            return out
        if k == "Return":
            if ch and ch[0] is not None:
                self.scan_expr(fn, ch[0], tracked)
                if rets is not None:
                    rets.add(self.value(fn, ch[0], tracked))
            elif rets is not None:
                rets.add(None)
            return {"return"}
        if k == "Break":
            return {"break"}
        if k == "Continue":
            return {"continue"}
        if k in ("Label", "Case", "Default"):
            flows = {"next"}
            for c in ch:
                if c is not None and c["k"] not in ("Int", "Cast", "Ref", "Char"):
                    flows = self.walk_stmt(fn, c, tracked, rets)
            return flows
        if k == "Goto":
            return {"next"}
        self.scan_expr(fn, n, tracked)
        if k == "Call" and n.get("noreturn"):
            return set()
        return {"next"}

    def scan_expr(self, fn, e, tracked):
        """Targets and onward calls inside an expression (short-circuit operands decided where possible)."""
        if e is None:
            return
        k = e["k"]
        ch = e.get("ch") or []
        if k == "Binary" and e.get("op") in ("&&", "||"):
            self.scan_expr(fn, ch[0], tracked)
            t = self.truth(fn, ch[0], tracked)
            if (e["op"] == "&&" and t is False) or (e["op"] == "||" and t is True):
                return
            self.scan_expr(fn, ch[1], tracked)
            return
        if k == "Cond":
            self.scan_expr(fn, ch[0], tracked)
            t = self.truth(fn, ch[0], tracked)
            if t is not False:
                self.scan_expr(fn, ch[1], tracked)
            if t is not True:
                self.scan_expr(fn, ch[2], tracked)
            return
        for c in ch:
            self.scan_expr(fn, c, tracked)
        for c in e.get("pre") or []:
            self.scan_expr(fn, c, tracked)
        if k == "Assign" and e.get("op") == "=" and len(ch) == 2:
            l = strip(ch[0])
            if l is not None and l["k"] == "Ref" and self.tracked_ref(ch[1], tracked):
                tracked.add(l.get("d"))
        if k == "Call":
            idx = [i for i, a in enumerate(ch) if self.tracked_ref(a, tracked)]
            if idx and self.is_target(fn, e, idx):
                self.hits.append((fn, e, tuple(f.name for f in self.stack)))
            if idx:
                callee = self.resolve(e, fn)
                if callee is not None and idx[0] < len(callee.params):
                    self.enter(callee, idx[0])

    def enter(self, callee, pidx):
        key = (callee.key, callee.file, pidx)
        if key in self.memo:
            return
        self.memo[key] = True
        self.stack.append(callee)
        try:
            self.walk_stmt(callee, callee.body, {callee.params[pidx]["d"]})
        finally:
            self.stack.pop()
