#include <stdbool.h>
void ERRORset_warning( char * name, bool warn_only );
int main( int argc, char ** argv ) {
    int c = argv[1][1];
    switch( c ) {
        case 'i':
        case 'w':
            ERRORset_warning( argv[2], c == 'w' );   /* VIOLATION R5 polarity: is_enabled returns !override */
            break;
    }
    return argc;
}
