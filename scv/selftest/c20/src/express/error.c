/* self-test subject for the C20 rules: one conforming and one violating instance per rule */
#include <stdarg.h>
#include <stdio.h>
#include <string.h>
#include <stdbool.h>
enum Severity { SEVERITY_WARNING = 0, SEVERITY_ERROR, SEVERITY_EXIT, SEVERITY_DUMP };
enum ErrorCode { DUPLICATE_DECL = 1, GOOD_TWO, BAD_COUNT, BAD_KIND, NO_ARGS, SELECT_EMPTY };
struct Error_ { enum Severity severity; const char * message; const char * name; bool override; };
typedef struct Error_ * Error;
typedef struct Symbol_ { const char * filename; int line; } Symbol;
static struct Error_ LibErrors[] = {
    [DUPLICATE_DECL] = {SEVERITY_ERROR, "Redeclaration of %s on line %d.", NULL, false},
    [GOOD_TWO] = {SEVERITY_WARNING, "two %s %s", "cls", false},
    [BAD_COUNT] = {SEVERITY_ERROR, "needs one %s", NULL, false},
    [BAD_KIND] = {SEVERITY_ERROR, "needs string %s", NULL, false},
    [NO_ARGS] = {SEVERITY_WARNING, "no conversions", NULL, false},
    [SELECT_EMPTY] = {SEVERITY_ERROR, "select %s", NULL, false},
};
bool ERRORoccurred = false;
const char * current_filename = "stdin";
void ERRORreport_with_symbol( enum ErrorCode errnum, Symbol * sym, ... );
bool ERRORis_enabled( enum ErrorCode errnum ) { return !LibErrors[errnum].override; }
void ERRORreport( enum ErrorCode errnum, ... ) {
    va_list args;
    va_start( args, errnum );
    if( LibErrors[errnum].severity >= SEVERITY_ERROR ) {
        vfprintf( stderr, LibErrors[errnum].message, args );
        ERRORoccurred = true;
    }
    va_end( args );
}
void ERRORreport_with_line( enum ErrorCode errnum, int line, ... ) {
    Symbol sym;
    va_list args;
    va_start( args, line );
    sym.filename = current_filename;
    sym.line = line;
    ERRORreport_with_symbol( errnum, &sym, args );   /* VIOLATION R2: va_list through ellipsis; R2: no va_end */
}
void ERRORreport_with_symbol( enum ErrorCode errnum, Symbol * sym, ... ) {
    va_list args;
    va_start( args, sym );
    Error what = &LibErrors[errnum];
    if( what->severity >= SEVERITY_ERROR ) {
        ERRORoccurred = true;
    }
    vfprintf( stderr, what->message, args );
    va_end( args );
}
void ERRORset_warning( char * name, bool warn_only ) {
    for( unsigned i = 0; i < sizeof LibErrors / sizeof LibErrors[0]; i++ ) {
        Error err = &LibErrors[i];
        if( err->severity <= SEVERITY_WARNING && !strcmp( err->name, name ) ) {  /* VIOLATION R5: NULL name */
            err->override = warn_only;
        }
    }
}
void ERRORset_all_warnings( bool warn_only ) {
    for( unsigned i = 0; i < sizeof LibErrors / sizeof LibErrors[0]; i++ ) {
        Error err = &LibErrors[i];
        err->override = warn_only;                       /* VIOLATION R5: unguarded override write */
    }
}
void user( Symbol * s, char * nm, int n ) {
    ERRORreport_with_symbol( DUPLICATE_DECL, s, nm, n );     /* ok */
    ERRORreport( GOOD_TWO, nm, "lit" );                       /* ok */
    ERRORreport_with_symbol( BAD_COUNT, s );                  /* VIOLATION R1: missing argument */
    ERRORreport_with_line( BAD_KIND, 3, n );                  /* VIOLATION R1: int for %s */
    ERRORreport( NO_ARGS );                                   /* ok */
}
void stray_writer( void ) { current_filename = "x"; }        /* VIOLATION R3: writer outside scanner */
