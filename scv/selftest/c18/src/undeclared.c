/* self-test subject for C18 R1: strdup() is not declared by <string.h> under -std=c11 */
#include <string.h>
char * copy( const char * s ) {
    char * p = strdup( s );
    return p;
}
