/* self-test subject for C06 R2 (escape then free): not part of stepcode */
#include <stdlib.h>
#include <string.h>

struct sym { const char * filename; };
struct elem { char * key; };

static const char * current_file;
static struct sym table[4];

/* keeps its argument in a global */
void lex_init( const char * name ) {
    current_file = ( name ? name : "" );
}

/* passes it on to a keeper */
void parser_run( const char * name ) {
    lex_init( name );
}

/* only reads its argument; the struct it fills lives on its own stack */
int lookup( char * name ) {
    struct elem e;
    e.key = name;
    return ( int )strlen( e.key );
}

/* planted: freed while the lexer still points at it */
void find_schema_bad( const char * path ) {
    char * copy = strdup( path );
    parser_run( copy );
    free( copy );
}

/* conforming: the callee does not keep it */
int find_schema_ok( const char * path ) {
    char * copy = strdup( path );
    int n = lookup( copy );
    free( copy );
    return n;
}

/* conforming: the free sits on an arm that returns before the keeper is called */
void find_schema_arm( const char * path, int early ) {
    char * copy = strdup( path );
    if( early ) {
        free( copy );
        return;
    }
    parser_run( copy );
}

/* planted: direct store into a longer-lived table, then free */
void define_bad( const char * path ) {
    char * copy = strdup( path );
    table[0].filename = copy;
    free( copy );
}

/* conforming: the location is reset before the free */
void define_reset( const char * path ) {
    char * copy = strdup( path );
    table[1].filename = copy;
    table[1].filename = 0;
    free( copy );
}
