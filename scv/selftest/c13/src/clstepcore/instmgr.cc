// self-test subject for C13 R4.stale_id_copy: two appends, one with a stale copy of the file id
#include <map>

class SDAI_Application_instance {
    public:
        int id;
        int StepFileId() const { return id; }
        void StepFileId( int i ) { id = i; }
};

class MgrNode {
    public:
        SDAI_Application_instance * se;
        int GetFileId() { return se->StepFileId(); }
};

class InstMgr {
    public:
        int maxFileId;
        std::map<int, MgrNode *> * sortedMaster;
        int NextFileId() { return maxFileId = maxFileId + 1; }
        MgrNode * FindFileId( int fileId );
        MgrNode * AppendStale( SDAI_Application_instance * se );
        MgrNode * AppendFresh( SDAI_Application_instance * se );
};

MgrNode * InstMgr::FindFileId( int fileId ) {
    std::map<int, MgrNode *>::iterator it = sortedMaster->find( fileId );
    return it == sortedMaster->end() ? 0 : it->second;
}

// planted violation: fileId is not refreshed in the duplicate branch
MgrNode * InstMgr::AppendStale( SDAI_Application_instance * se ) {
    int fileId = se->StepFileId();
    if( fileId == 0 ) {
        fileId = NextFileId();
        se->StepFileId( fileId );
    }
    MgrNode * mn = FindFileId( fileId );
    if( mn ) {
        se->StepFileId( NextFileId() );
    }
    if( fileId > maxFileId ) {
        maxFileId = fileId;
    }
    mn = new MgrNode;
    mn->se = se;
    ( *sortedMaster )[fileId] = mn;
    return mn;
}

// conforming: the copy is refreshed after every renumbering
MgrNode * InstMgr::AppendFresh( SDAI_Application_instance * se ) {
    int fileId = se->StepFileId();
    if( fileId == 0 ) {
        fileId = NextFileId();
        se->StepFileId( fileId );
    }
    MgrNode * mn = FindFileId( fileId );
    if( mn ) {
        se->StepFileId( NextFileId() );
        fileId = se->StepFileId();
    }
    if( fileId > maxFileId ) {
        maxFileId = fileId;
    }
    mn = new MgrNode;
    mn->se = se;
    ( *sortedMaster )[fileId] = mn;
    return mn;
}
