"""May-be-null exploration over the clang CFG.

Question answered: a variable `d` may hold NULL just after position `start`; which dereferences of `d` can control
reach while `d` is still possibly NULL?

 * the walk follows CFG edges; at a two-way terminator the condition is evaluated three-valued under the hypothesis
   `d == NULL`, and an edge that the hypothesis excludes is not taken (`if( !d ) continue;`, `d && d->x`, `d ? .. : ..`,
   `assert( d )`);
 * inside one CFG element the short-circuit operators and ?: are honoured the same way;
 * an assignment to `d` ends the path (the new value is a different obligation);
 * a dereference is `d->m`, `*d`, `d[i]`, a C string function applied to `d`, or `d` passed to a function of the program
   whose summary says that the parameter is dereferenced on a path on which it may still be NULL (summaries are computed
   with the same walk, recursion assumed harmless while in progress).

No aliasing (`w = d; w->m`) and no field sensitivity: what is reported is a dereference through `d` itself.
"""
from ir import strip, walk

STR_FNS = {"strcmp": (0, 1), "strcpy": (0, 1), "strlen": (0,), "strcat": (0, 1), "strncmp": (0, 1), "strncpy": (0, 1),
           "strdup": (0,), "strchr": (0,), "strrchr": (0,), "strstr": (0, 1), "strcasecmp": (0, 1), "fputs": (0, 1),
           "fprintf": (0, 1), "fclose": (0,), "fgets": (0, 2), "memcpy": (0, 1), "memset": (0,), "atoi": (0,), "puts": (0,)}


def _is(n, d):
    n = strip(n)
    return n is not None and n["k"] == "Ref" and n.get("d") == d


def _val_is(n, d):
    """the value of n is the value of d: `d`, or an embedded assignment `( d = .. )`"""
    n = strip(n)
    if n is None:
        return False
    if n["k"] == "Ref":
        return n.get("d") == d
    if n["k"] == "Assign" and n.get("op", "=") == "=":
        return _is(n["ch"][0], d)
    return False


def three(n, d):
    """value of `n` as a condition under d == NULL: True / False / None (unknown)"""
    if n is None:
        return None
    k = n["k"]
    if k in ("Cast", "DefaultArg", "DefaultInit") and n.get("ch"):
        return three(n["ch"][0], d)
    if k == "Ref":
        return False if n.get("d") == d else None
    if k == "Assign" and n.get("op", "=") == "=" and n.get("ch") and _is(n["ch"][0], d):
        return False
    if k in ("Int", "Bool", "Char") and "val" in n:
        return bool(n["val"])
    if k == "Null0":
        return False
    ch = n.get("ch") or []
    if k == "Unary" and n.get("op") == "!":
        v = three(ch[0], d)
        return None if v is None else (not v)
    if k == "Binary":
        op = n.get("op")
        if op in ("==", "!="):
            a, b = ch[0], ch[1]
            va = 0 if _val_is(a, d) else _const(a)
            vb = 0 if _val_is(b, d) else _const(b)
            if va is None or vb is None:
                return None
            return (va == vb) if op == "==" else (va != vb)
        if op == "&&":
            a, b = three(ch[0], d), three(ch[1], d)
            if a is False or b is False:
                return False
            if a is True and b is True:
                return True
            return None
        if op == "||":
            a, b = three(ch[0], d), three(ch[1], d)
            if a is True or b is True:
                return True
            if a is False and b is False:
                return False
            return None
        if op == ",":
            return three(ch[-1], d)
    return None


def _const(n):
    n0 = n
    n = strip(n)
    if n is None:
        return None
    if n["k"] == "Null0" or (n0["k"] == "Cast" and n0.get("ck") == "NullToPointer"):
        return 0
    if n["k"] in ("Int", "Bool", "Char") and "val" in n:
        return n["val"]
    return None


class Nullness:
    def __init__(self, prog, str_fns=STR_FNS):
        self.prog = prog
        self.str_fns = str_fns
        self._summ = {}
        self._busy = set()

    # -- summaries -------------------------------------------------------------------------------------------------
    def param_deref(self, fkey, idx):
        """-> None, or (function name, where) of a dereference of parameter #idx reachable while it may be NULL"""
        k = (fkey, idx)
        if k in self._summ:
            return self._summ[k]
        if k in self._busy:
            return None
        fs = [f for f in self.prog.all_functions() if f.key == fkey and f.cfg is not None]
        if not fs:
            self._summ[k] = None
            return None
        f = fs[0]
        if idx >= len(f.params):
            self._summ[k] = None
            return None
        self._busy.add(k)
        try:
            hits = self.explore(f, f.params[idx]["d"], (f.cfg.entry, -1))
        finally:
            self._busy.discard(k)
        out = None
        hits = [h for h in hits if h[1] != "return"]
        if hits:
            n, why = hits[0]
            out = (f.name, f.where(n), why)
        self._summ[k] = out
        return out

    # -- one element -----------------------------------------------------------------------------------------------
    def scan(self, f, n, d, out):
        """collect dereferences of d evaluated in n (under d == NULL); returns True when d is re-assigned in n"""
        if n is None:
            return False
        k = n["k"]
        ch = n.get("ch") or []
        if k == "Binary" and n.get("op") in ("&&", "||"):
            if self.scan(f, ch[0], d, out):
                return True
            v = three(ch[0], d)
            if (n["op"] == "&&" and v is False) or (n["op"] == "||" and v is True):
                return False
            return self.scan(f, ch[1], d, out)
        if k == "Cond" and len(ch) >= 3:
            if self.scan(f, ch[0], d, out):
                return True
            v = three(ch[0], d)
            killed = False
            if v is not False:
                killed = self.scan(f, ch[1], d, out) or killed
            if v is not True:
                killed = self.scan(f, ch[2], d, out) or killed
            return killed
        if k == "Assign" and n.get("op", "=") == "=" and _is(ch[0], d):
            self.scan(f, ch[1], d, out)
            return True
        if k == "Return" and ch and ch[0] is not None and _val_is(ch[0], d):
            out.append((n, "return"))
            return False
        if k in ("DeclStmt", "Var") and k == "Var" and n.get("d") == d:
            return True
        if k == "Member" and n.get("arrow") and ch and _is(ch[0], d):
            out.append((n, "`%s->%s`" % (strip(ch[0])["n"], n.get("n"))))
            return False
        if k == "Unary" and n.get("op") == "*" and ch and _is(ch[0], d):
            out.append((n, "`*%s`" % strip(ch[0])["n"]))
            return False
        if k == "Subscript" and ch and _is(ch[0], d):
            out.append((n, "`%s[..]`" % strip(ch[0])["n"]))
            return False
        if k == "Unary" and n.get("op") == "&" and ch and strip(ch[0]) is not None and strip(ch[0])["k"] == "Member" and \
                strip(ch[0]).get("arrow") and _is((strip(ch[0]).get("ch") or [None])[0], d):
            return False          # &d->m computes an address, no access
        if k in ("SizeOf", "Sizeof", "UnaryExprOrTypeTrait"):
            return False
        if k == "Call" and n.get("member") and ch and _is(ch[0], d) and not (n.get("fn") or "").split("::")[-1].startswith("operator"):
            # a member function called through d (d->f()): undefined for a NULL d even if f never touches *this
            out.append((n, "`%s->%s()`" % (strip(ch[0])["n"], (n.get("fn") or "").split("::")[-1])))
        if k == "Call":
            from engines import call_args
            args = call_args(n)
            killed = False
            for c in ch:
                killed = self.scan(f, c, d, out) or killed
            for i, a in enumerate(args):
                if not _is(a, d):
                    continue
                fn = n.get("fn")
                if fn in self.str_fns and i in self.str_fns[fn]:
                    out.append((n, "`%s( %s )`" % (fn, strip(a)["n"])))
                elif n.get("fk"):
                    s = self.param_deref(n["fk"], i)
                    if s is not None:
                        out.append((n, "passed to %s(), which dereferences that parameter at %s (%s)" % (s[0], s[1], s[2])))
            return killed
        killed = False
        for c in ch:
            killed = self.scan(f, c, d, out) or killed
        return killed

    # -- the walk --------------------------------------------------------------------------------------------------
    def explore(self, f, d, start):
        cfg = f.cfg
        hits = []
        seen_hit = set()
        seen = set()
        work = [(start[0], start[1] + 1)]
        while work:
            b, i = work.pop()
            blk = cfg.blocks[b]
            killed = False
            for j in range(i, len(blk["e"])):
                out = []
                killed = self.scan(f, f.nodes.get(blk["e"][j]), d, out)
                for n, why in out:
                    if n["i"] not in seen_hit:
                        seen_hit.add(n["i"])
                        hits.append((n, why))
                if killed:
                    break
            if killed:
                continue
            succ = list(cfg.succ[b])
            raw = blk["s"]
            tc = blk.get("tc")
            if tc is not None and len(raw) == 2 and blk.get("tkind") not in ("SwitchStmt",):
                v = three(f.nodes.get(tc), d)
                if v is True:
                    succ = [s for s in succ if s == raw[0]]
                elif v is False:
                    succ = [s for s in succ if s == raw[1]]
            for s in succ:
                if s not in seen:
                    seen.add(s)
                    work.append((s, 0))
        hits.sort(key=lambda h: (h[0].get("l", 0), h[0].get("c", 0)))
        return hits


def three_nn(n, d):
    """value of `n` as a condition under d != NULL: True / False / None (unknown)"""
    if n is None:
        return None
    k = n["k"]
    if k in ("Cast", "DefaultArg", "DefaultInit") and n.get("ch"):
        return three_nn(n["ch"][0], d)
    if k == "Ref":
        return True if n.get("d") == d else None
    if k in ("Int", "Bool", "Char") and "val" in n:
        return bool(n["val"])
    ch = n.get("ch") or []
    if k == "Unary" and n.get("op") == "!":
        v = three_nn(ch[0], d)
        return None if v is None else (not v)
    if k == "Binary":
        op = n.get("op")
        if op in ("==", "!="):
            for a, b in ((ch[0], ch[1]), (ch[1], ch[0])):
                if _val_is(a, d) and _const(b) == 0:
                    return op == "!="
            return None
        if op == "&&":
            a, b = three_nn(ch[0], d), three_nn(ch[1], d)
            return False if (a is False or b is False) else (True if (a and b) else None)
        if op == "||":
            a, b = three_nn(ch[0], d), three_nn(ch[1], d)
            return True if (a is True or b is True) else (False if (a is False and b is False) else None)
    return None


def reaches_unassigned(f, d, target, nonnull=True, start=None):
    """can control reach the node `target` from the entry of f without passing an assignment to the variable d, on a path
    that is consistent with d != NULL (nonnull=True) or with d == NULL?"""
    cfg = f.cfg
    tpos = cfg.locate(target)
    ev = three_nn if nonnull else three
    seen = set()
    work = [(cfg.entry, 0)] if start is None else [(start[0], start[1] + 1)]
    while work:
        b, i = work.pop()
        blk = cfg.blocks[b]
        killed = False
        for j in range(i, len(blk["e"])):
            if (b, j) == tuple(tpos):
                return True
            e = f.nodes.get(blk["e"][j])
            for y in walk(e) if e is not None else []:
                if y["k"] == "Assign" and y.get("op", "=") == "=" and _is(y["ch"][0], d):
                    killed = True
            if killed:
                break
        if killed:
            continue
        succ = list(cfg.succ[b])
        raw = blk["s"]
        tc = blk.get("tc")
        if tc is not None and len(raw) == 2 and blk.get("tkind") != "SwitchStmt":
            v = ev(f.nodes.get(tc), d)
            if v is True:
                succ = [x for x in succ if x == raw[0]]
            elif v is False:
                succ = [x for x in succ if x == raw[1]]
        for x in succ:
            if x not in seen:
                seen.add(x)
                work.append((x, 0))
    return False


def calls_under_null(f, d):
    """call nodes that control can reach from the entry of f while the variable d is NULL (edges that the hypothesis
    excludes are not taken; an assignment to d ends the path)"""
    cfg = f.cfg
    out, seen_calls = [], set()
    seen = set()
    work = [(cfg.entry, 0)]

    def collect(n):
        """calls evaluated in n under the hypothesis, honouring short-circuit operators; True when d is re-assigned"""
        if n is None:
            return False
        k = n["k"]
        ch = n.get("ch") or []
        if k == "Binary" and n.get("op") in ("&&", "||"):
            if collect(ch[0]):
                return True
            v = three(ch[0], d)
            if (n["op"] == "&&" and v is False) or (n["op"] == "||" and v is True):
                return False
            return collect(ch[1])
        if k == "Cond" and len(ch) >= 3:
            if collect(ch[0]):
                return True
            v = three(ch[0], d)
            killed = False
            if v is not False:
                killed = collect(ch[1]) or killed
            if v is not True:
                killed = collect(ch[2]) or killed
            return killed
        killed = False
        for c in ch:
            killed = collect(c) or killed
        if k == "Call" and n["i"] not in seen_calls:
            seen_calls.add(n["i"])
            out.append(n)
        if k == "Assign" and n.get("op", "=") == "=" and _is(ch[0], d):
            return True
        return killed
    while work:
        b, i = work.pop()
        blk = cfg.blocks[b]
        killed = False
        for j in range(i, len(blk["e"])):
            if collect(f.nodes.get(blk["e"][j])):
                killed = True
                break
        if killed:
            continue
        succ = list(cfg.succ[b])
        raw = blk["s"]
        tc = blk.get("tc")
        if tc is not None and len(raw) == 2 and blk.get("tkind") != "SwitchStmt":
            v = three(f.nodes.get(tc), d)
            if v is True:
                succ = [x for x in succ if x == raw[0]]
            elif v is False:
                succ = [x for x in succ if x == raw[1]]
        for x in succ:
            if x not in seen:
                seen.add(x)
                work.append((x, 0))
    return out


def may_return_null(prog, nn, skip_components=("test",)):
    """functions with a pointer result some `return` of which yields NULL: a null constant, a call of such a function,
    or a local that may still be NULL there (least fixed point)"""
    out = {}
    fns = []
    for f in prog.all_functions():
        if f.component in skip_components or f.cfg is None:
            continue
        rt = f.tyname(f.raw.get("ret")) if isinstance(f.raw.get("ret"), int) else ""
        if "*" not in rt:
            continue
        fns.append(f)
    changed = True
    while changed:
        changed = False
        for f in fns:
            if f.key in out:
                continue
            why = None
            for n in f.walk():
                if n["k"] == "Return" and n.get("ch") and n["ch"][0] is not None:
                    v = strip(n["ch"][0])
                    if _const(n["ch"][0]) == 0:
                        why = "returns NULL at line %s" % n["l"]
                    elif v is not None and v["k"] == "Call" and v.get("fk") in out:
                        why = "returns the result of %s() at line %s" % (v.get("fn"), n["l"])
                if why:
                    break
            if why is None:
                for n in f.walk():
                    src = None
                    if n["k"] == "Assign" and n.get("op", "=") == "=":
                        lhs, rhs = strip(n["ch"][0]), strip(n["ch"][1])
                        if lhs is not None and lhs["k"] == "Ref" and lhs.get("dk") == "local" and rhs is not None:
                            if (rhs["k"] == "Call" and rhs.get("fk") in out) or _const(n["ch"][1]) == 0:
                                src = (lhs["d"], n)
                    elif n["k"] == "Var" and n.get("ch") and n["ch"][0] is not None:
                        rhs = strip(n["ch"][0])
                        if rhs is not None and ((rhs["k"] == "Call" and rhs.get("fk") in out) or _const(n["ch"][0]) == 0):
                            src = (n["d"], n)
                    if src is None:
                        continue
                    pos = f.cfg.locate(src[1])
                    if pos is None:
                        continue
                    if any(w == "return" for _, w in nn.explore(f, src[0], pos)):
                        why = "returns a local that may still be NULL (assigned at line %s)" % src[1]["l"]
                        break
            if why:
                out[f.key] = (f.name, why)
                changed = True
    return out
