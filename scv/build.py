#!/usr/bin/env python3
"""MANIFEST.setup_cmd: build the scv extractor (offline, ~20 s) and freeze the flag table."""
import os
import subprocess
import sys

HERE = os.path.dirname(os.path.abspath(__file__))
sys.path.insert(0, HERE)


def main():
    os.makedirs(os.path.join(HERE, "bin"), exist_ok=True)
    out = os.path.join(HERE, "bin", "scv")
    src = os.path.join(HERE, "scv.cc")
    if not os.path.exists(out) or os.path.getmtime(out) < os.path.getmtime(src):
        cxxflags = subprocess.check_output(["llvm-config-14", "--cxxflags"], text=True).split()
        cmd = ["clang++"] + cxxflags + ["-fno-rtti", "-O1", src, "-o", out,
                                         "/usr/lib/llvm-14/lib/libclang-cpp.so.14", "/usr/lib/llvm-14/lib/libLLVM-14.so"]
        print("building scv ...", flush=True)
        subprocess.check_call(cmd)
    import facts
    if facts.write_fallback():
        print("flag table refreshed from ninja -t compdb")
    else:
        print("no build tree: using the committed flag table")
    units, route = facts.compile_db()
    print("compile database: %d first-party units via %s" % (len(units), route))
    return 0


if __name__ == "__main__":
    sys.exit(main())
