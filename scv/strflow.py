"""What happens to the *content* of a std::string that is handed around: appended to, overwritten, or consumed.

 * `consumes(prog)`: least fixed point of "parameter #i of F (a std::string by reference, pointer or value) is consumed": its
   content is copied somewhere or looked at - it is an argument of a call whose callee is unknown (library: operator=, operator<<,
   a constructor, strcmp ...) or consumes that parameter, the object of a member call other than the mutators / size queries,
   returned, or the right-hand side of an assignment.  A parameter that is only appended to (`append`, `+=`, `push_back`), cleared,
   overwritten or asked for its size is *not* consumed: FindStartOfInstance / SkipInstance collect text into a buffer nobody reads.
 * `classify(prog, cons, f, node, d)`: what one AST node does to local variable d: "clear", "fill", "overwrite", "consume" or None.
"""
from ir import strip, walk

MUTATE = {"append", "operator+=", "push_back", "insert", "reserve", "resize"}
OVERWRITE = {"assign", "operator=", "swap"}
QUERY = {"size", "length", "empty", "capacity", "max_size"}


def _core(n):
    n = strip(n)
    while n is not None and n["k"] in ("Cast", "Paren") and n.get("ch"):
        n = strip(n["ch"][0])
    return n


def _is_var(n, d):
    """n denotes the string variable d itself: `d`, `*d` (pointer parameter), `&d`"""
    n = _core(n)
    if n is None:
        return False
    if n["k"] == "Ref":
        return n.get("d") == d
    if n["k"] == "Unary" and n.get("op") in ("*", "&") and n.get("ch"):
        return _is_var(n["ch"][0], d)
    return False


def _method(call):
    return (call.get("fn") or "").rsplit("::", 1)[-1]


def _obj_args(call):
    ch = call.get("ch") or []
    if call.get("member"):
        return (ch[0] if ch else None), ch[1:]
    return None, ch


def _defined(prog):
    k = getattr(prog, "_strflow_defined", None)
    if k is None:
        k = prog._strflow_defined = {f.key for f in prog.all_functions()}
    return k


def effect(prog, cons, call, d, fn=None):
    """effect of one call node on the string variable d, or None when d is not involved at the top level of the call.
    `s.c_str()` / `s.data()` that is returned as it is hands a view to the caller and is the caller's business: with fn given,
    such a call is not a consumption here (the callers' use of the result is not followed - stated in the rule text)."""
    obj, args = _obj_args(call)
    if obj is not None and _is_var(obj, d):
        m = _method(call)
        if m in ("c_str", "data") and fn is not None:
            par = fn.parent.get(call["i"])
            while par is not None and par["k"] in ("Cast", "Paren"):
                par = fn.parent.get(par["i"])
            if par is not None and par["k"] == "Return":
                return None
        if m == "clear":
            return "clear"
        if m in MUTATE:
            return "fill"
        if m in OVERWRITE:
            if len(args) == 1 and _core(args[0]) is not None and _core(args[0])["k"] == "Str" and not _core(args[0]).get("s"):
                return "clear"      # s = "" / s.assign("")
            return "overwrite"
        if m in QUERY:
            return None
        return "consume"
    out = None
    for i, a in enumerate(args):
        if not _is_var(a, d):
            continue
        fk = call.get("fk")
        if fk in _defined(prog):
            tg = [fk] + (list(prog.overriders(fk) or []) if call.get("virt") else [])
            if any((t, i) in cons for t in tg):
                return "consume"
            out = "fill"        # handed to a project function that does not consume it: it may only append / overwrite
        else:
            return "consume"    # library callee: copies or inspects it
    return out


def consumes(prog, skip_components=("test",)):
    out = {}
    fns = [f for f in prog.all_functions() if f.component not in skip_components]
    cand = {}
    for f in fns:
        for i, p in enumerate(f.params):
            t = f.tyname(p["t"]) if isinstance(p.get("t"), int) else ""
            if "basic_string" in t:
                cand.setdefault(f.key, []).append((i, p["d"], f))
    changed = True
    while changed:
        changed = False
        for key, ps in cand.items():
            for i, d, f in ps:
                if (key, i) in out:
                    continue
                why = None
                for n in f.walk():
                    k = n["k"]
                    if k in ("Call", "Construct"):
                        e = effect(prog, out, n, d, f) if k == "Call" else ("consume" if any(_is_var(a, d) for a in (n.get("ch") or [])) else None)
                        if e == "consume":
                            why = "%s (%s)" % (n.get("fn") or "a constructor", f.where(n))
                            break
                    elif k == "Return" and n.get("ch") and n["ch"][0] is not None and _is_var(n["ch"][0], d):
                        why = "returned (%s)" % f.where(n)
                        break
                    elif k == "Assign" and len(n.get("ch") or []) > 1 and _is_var(n["ch"][1], d):
                        why = "assigned (%s)" % f.where(n)
                        break
                    elif k == "Var" and n.get("ch") and n["ch"][0] is not None and _is_var(n["ch"][0], d):
                        why = "copied into a local (%s)" % f.where(n)
                        break
                if why:
                    out[(key, i)] = why
                    changed = True
    return out
